"""xv.genir - structured random generator of *generic* IR (shared by C02, C03; reusable by C04, C11, C17).

The generator works in two stages so that every case has an explicit, JSON-able description:

  1. `gen_spec(rng, cfg) -> spec`      a plain dict/list/str/int tree (the witness format)
  2. `build(spec) -> Built`            materialises the spec through PUBLIC xDSL constructors only

Shapes produced (each one controlled by a probability / bound in `Cfg`, counted by `features`):
  * nested regions (ops with 0..max_regions regions, depth <= max_depth), empty regions, empty blocks
  * multi-block regions whose terminators branch to blocks of the SAME region: forward, backward and
    self references (successors are never cross-region: that is invalid IR)
  * graph-region style forward VALUE references: an operand defined later in the same block, in a later
    (or earlier, non-dominating) block of the same region, or after the enclosing op in an enclosing block;
    the result of an enclosing op used inside its own region; optional def-use cycles (`p_value_cycle`)
  * values from enclosing regions (block arguments and results visible by scoping)
  * references to values OUTSIDE the generated piece (`n_outside` free values; for detached roots)
  * block arguments, optional name hints (valid identifiers, a few with `_<digits>` suffixes)
  * attributes and properties from a pool of builtin attributes (`ATTRS`), result/argument types from `TYPES`
  * ops: test.op / test.pureop / test.op_with_memread / test.op_with_memwrite / test.termop and unregistered
    ops (`unreg.*`, created through `Context(allow_unregistered=True).get_op`), root `builtin.module`

Guarantees:
  * the op/block/region TREE is never cyclic; every reference respects scoping (a value is only used in
    the region that defines it or in regions nested in it), so the printed generic form re-parses;
  * with `Cfg(verifiable=True)` (default) `root.verify()` succeeds for root="module" (terminators where
    xDSL requires them, successors only on the last op of a block); with `verifiable=False` ("wild")
    terminators/successor placement are random (still same-region successors);
  * everything derives from the `random.Random` passed in; nothing depends on ids, hashes or time.

Spec format (all JSON-able):
  spec  = {"root": "module"|"op"|"region"|"block", "node": <op | [block,...] | block>, "outside": [typekey,...]}
  op    = {"id": int, "name": str, "res": [typekey], "rh": [hint|None], "opnds": [ref], "succ": [block id],
           "attrs": [[key, attrkey],...] (ordered), "props": [[key, attrkey],...], "regions": [[block,...],...],
           optional "loc": [file, line, col]}
  block = {"id": int, "args": [typekey], "ah": [hint|None], "ops": [op,...], optional "al": [[file, line, col]|None per arg]}
  ref   = ["r", op id, result index] | ["a", block id, arg index] | ["x", outside index]
  Ids are unique per spec (ops and blocks have separate id spaces) and survive `mutate_spec`.

API:
  Cfg(**kw)                      dataclass of bounds/probabilities (see fields); `Cfg.hostile()` / `Cfg.plain()` presets
  gen_spec(rng, cfg)             -> spec
  build(spec, ctx=None)          -> Built(root, ops{id:Operation}, blocks{id:Block}, outside[SSAValue], spec,
                                    setter_patches:int)   (`Built.value(ref)` resolves a ref)
                                    ops are created with `<OpClass>.create(...)` in def-use dependency order, blocks
                                    with `Block(arg_types=...)`, assembled with `Region.add_block` / `Block.add_op`;
                                    only def-use CYCLES need `op.operands[i] = v` (counted in setter_patches)
  gen(rng, cfg)                  -> Built  (= build(gen_spec(rng, cfg)))
  features(spec)                 -> dict of ints: ops, blocks, regions, depth, multi_block_regions, fwd_value_refs,
                                    fwd_block_refs, back_block_refs, self_block_refs, enclosing_refs, outside_refs,
                                    own_result_in_region, value_cycles, block_args, hints, attrs, props, unregistered,
                                    empty_blocks, empty_regions
  walk_ops(spec) / walk_blocks(spec)   iterate op / block dicts in walk (pre-)order
  visible_refs(spec, op_id)      -> list of refs that respect scoping for an operand of that op
  mutate_spec(rng, spec, kind=None) -> (new_spec, kind, note) | None   single-point mutation (deep copy);
                                    kinds in MUTATION_KINDS; NEUTRAL_KINDS do not change structure (hints, dict order)
  spec_text(spec)                -> short human readable rendering (for witnesses)
  collect(root)                  -> (ops, blocks, regions, values) of REAL IR in walk order, read from the raw link fields
  region_blocks(r), block_ops(b), is_inside(node, ancestor)   raw-field helpers for real IR
  TYPES, ATTRS                   key -> xDSL attribute pools (extend with register_type / register_attr); the generator
                                 draws from SAFE_ATTR_KEYS unless Cfg(float_edge_attrs=True); FLOAT_EDGE_FAMILIES lists
                                 (name, keyA, keyB) pairs of attributes that differ only in NaN payload / sign / zero sign
                                 (bare and nested in array, dictionary, dense attributes) for single-point mutations;
                                 UNREG_ATTR_FAMILIES / UNREG_TYPE_FAMILIES list (name, keyA, keyB) pairs of UNREGISTERED
                                 attributes / types with the same name and different bodies (`#foo.bar<1>` vs `#foo.bar<2>`,
                                 `!foo.vec<4>` vs `!foo.vec<8>`, opaque spelling, nested in array/dict/tensor/function types)
"""
from __future__ import annotations

import copy
import dataclasses
import random
from dataclasses import dataclass

# --------------------------------------------------------------------------------------------- pools
TYPES: dict = {}
ATTRS: dict = {}
SAFE_ATTR_KEYS: list = []        # keys of ATTRS drawn by default
SAFE_TYPE_KEYS: list = []        # keys of TYPES used by mutate_spec (the ur_* unregistered types are not among them)
UNREG_ATTR_FAMILIES: list = []   # (family name, attr key A, attr key B): unregistered attributes, same name, different body
UNREG_TYPE_FAMILIES: list = []   # (family name, type key A, type key B): unregistered types, same name, different body
FLOAT_EDGE_FAMILIES: list = []   # (family name, attr key A, attr key B): attributes differing only in float corner-case bits
_CTX = None
TERMINATOR_NAMES = ("test.termop",)
PLAIN_OP_NAMES = ("test.op", "test.op", "test.pureop", "test.op_with_memread", "test.op_with_memwrite")
UNREG_NAMES = ("unreg.alpha", "unreg.beta", "custom.thing")
HINTS = ("a", "b", "x", "val", "arg", "tmp_x", "v.1", "res$", "x_1", "long_name_hint", "A0", "_u", "y_2_3")
ATTR_KEYS = ("a", "b", "k0", "test.key", "value", "zz")
PROP_KEYS = ("prop1", "prop2", "prop3")
UNREG_PROP_KEYS = ("p0", "p1")


def _init_pools():
    global _CTX
    if TYPES:
        return
    from xdsl.context import Context
    from xdsl.dialects import builtin as b
    from xdsl.dialects.test import Test, TestType
    from xdsl.ir.affine import AffineMap
    T = TYPES
    T.update({
        "i1": b.i1, "i8": b.IntegerType(8), "i32": b.i32, "i64": b.i64, "index": b.IndexType(),
        "f16": b.f16, "f32": b.f32, "f64": b.f64, "bf16": b.bf16,
        "si8": b.IntegerType(8, b.Signedness.SIGNED), "ui16": b.IntegerType(16, b.Signedness.UNSIGNED),
        "tt_a": TestType("a"), "tt_b": TestType("b"),
        "tensor": b.TensorType(b.i32, [2, 3]), "tensor_f": b.TensorType(b.f32, [2, 3]),
        "memref": b.MemRefType(b.f32, [4]), "vec": b.VectorType(b.i32, [4]),
        "fn": b.FunctionType.from_lists([b.i32], [b.i64]), "tuple": b.TupleType([b.i32, b.f32]),
        "none": b.NoneType(), "cplx": b.ComplexType(b.f32),
    })
    SAFE_TYPE_KEYS.extend(sorted(T))
    A = ATTRS
    A.update({
        "unit": b.UnitAttr(), "i32_0": b.IntegerAttr(0, b.i32), "i32_5": b.IntegerAttr(5, b.i32),
        "i64_5": b.IntegerAttr(5, b.i64), "i32_m1": b.IntegerAttr(-1, b.i32), "idx_7": b.IntegerAttr(7, b.IndexType()),
        "i1_t": b.IntegerAttr(1, b.i1), "f32_1_5": b.FloatAttr(1.5, b.f32), "f64_1_5": b.FloatAttr(1.5, b.f64),
        "f32_2": b.FloatAttr(2.0, b.f32), "str_a": b.StringAttr("a"), "str_b": b.StringAttr("b"),
        "str_empty": b.StringAttr(""), "str_esc": b.StringAttr('q"\\ \n\tz'),
        "arr": b.ArrayAttr([b.IntegerAttr(5, b.i32), b.StringAttr("a")]), "arr_empty": b.ArrayAttr([]),
        "arr2": b.ArrayAttr([b.IntegerAttr(5, b.i64), b.StringAttr("a")]),
        "dict": b.DictionaryAttr({"k": b.UnitAttr(), "j": b.IntegerAttr(1, b.i32)}),
        "dense_arr": b.DenseArrayBase.from_list(b.i32, [1, 2, 3]), "dense_arr64": b.DenseArrayBase.from_list(b.i64, [1, 2, 3]),
        "dense": b.DenseIntOrFPElementsAttr.from_list(b.TensorType(b.i32, [2]), [1, 2]),
        "sym": b.SymbolRefAttr("foo"), "sym_nested": b.SymbolRefAttr("foo", ["bar"]),
        "ty_i32": b.i32, "ty_fn": b.FunctionType.from_lists([b.i32], [b.i64]), "ty_tt": TestType("a"),
        "affmap": b.AffineMapAttr(AffineMap.identity(2)),
    })
    SAFE_ATTR_KEYS.extend(sorted(A))
    # float corner cases (NaN payload / quiet bit / sign, signed zero, infinities), bare and nested in array / dictionary /
    # dense attributes. NOT part of the default pool (generic printing of some of them is a known C04/C06 matter); used
    # through FLOAT_EDGE_FAMILIES or Cfg(float_edge_attrs=True).
    import struct

    def bits(x):
        return struct.unpack("<d", struct.pack("<Q", x))[0]
    fl = {"nan_q": bits(0x7FF8000000000000), "nan_p1": bits(0x7FF8000000000001), "nan_neg": bits(0xFFF8000000000000),
          "nan_s": bits(0x7FF0000000000001), "nan_f32p": bits(0x7FF8000020000000), "pzero": 0.0, "nzero": -0.0,
          "pinf": float("inf"), "ninf": float("-inf")}
    for k, v in fl.items():
        A["fe_f64_" + k] = b.FloatAttr(v, b.f64)
        A["fe_f32_" + k] = b.FloatAttr(v, b.f32)
        A["fe_arr_" + k] = b.ArrayAttr([b.IntegerAttr(1, b.i32), b.FloatAttr(v, b.f64)])
        A["fe_dict_" + k] = b.DictionaryAttr({"f": b.FloatAttr(v, b.f64), "g": b.UnitAttr()})
        A["fe_nest_" + k] = b.ArrayAttr([b.DictionaryAttr({"x": b.ArrayAttr([b.FloatAttr(v, b.f32)])})])
        A["fe_densearr_" + k] = b.DenseArrayBase.from_list(b.f64, [1.0, v])
        A["fe_dense_" + k] = b.DenseIntOrFPElementsAttr.from_list(b.TensorType(b.f64, [2]), [v, 1.0])
    for shape in ("f64", "f32", "arr", "dict", "nest", "densearr", "dense"):
        for x, y in (("nan_q", "nan_p1"), ("nan_q", "nan_neg"), ("nan_q", "nan_s"), ("nan_q", "nan_f32p"), ("pzero", "nzero"),
                     ("pinf", "ninf"), ("nan_q", "pinf"), ("nan_q", "nan_q"), ("nzero", "nzero")):
            FLOAT_EDGE_FAMILIES.append((f"{shape}:{x}/{y}", f"fe_{shape}_{x}", f"fe_{shape}_{y}"))
    # unregistered attributes / types: SAME name, different body (plus opaque `#foo<...>` spelling), bare and nested.
    # Not part of the default pools; used through UNREG_ATTR_FAMILIES / UNREG_TYPE_FAMILIES.
    def ur(name, body, is_type=False, opaque=False):
        return b.UnregisteredAttr.with_name_and_type(name, is_type)(name, is_type, opaque, body)
    ua = {"bar1": ur("foo.bar", "1"), "bar2": ur("foo.bar", "2"), "bar_empty": ur("foo.bar", ""),
          "cfg4": ur("foo.cfg", "tile = 4"), "cfg8": ur("foo.cfg", "tile = 8"),
          "opq_fast": ur("foo.mode", " fast", opaque=True), "opq_slow": ur("foo.mode", " slow", opaque=True),
          "baz1": ur("foo.baz", "1")}
    for k, v in ua.items():
        A["ur_" + k] = v
        A["ur_arr_" + k] = b.ArrayAttr([b.IntegerAttr(1, b.i32), v])
        A["ur_dict_" + k] = b.DictionaryAttr({"u": v, "g": b.UnitAttr()})
    for shape in ("", "arr_", "dict_"):
        for x, y in (("bar1", "bar2"), ("bar1", "bar_empty"), ("cfg4", "cfg8"), ("opq_fast", "opq_slow"), ("bar1", "baz1"),
                     ("bar1", "bar1")):
            UNREG_ATTR_FAMILIES.append((f"{shape or 'bare_'}{x}/{y}", f"ur_{shape}{x}", f"ur_{shape}{y}"))
    ut = {"vec4": ur("foo.vec", "4", True), "vec8": ur("foo.vec", "8", True), "vec_empty": ur("foo.vec", "", True),
          "arg4": ur("foo.arg", "4", True), "opq_t1": ur("foo.ty", " a", True, True), "opq_t2": ur("foo.ty", " b", True, True)}
    for k, v in ut.items():
        T["ur_" + k] = v
        A["ur_ty_" + k] = v
    T["ur_tensor_vec4"] = b.TensorType(ut["vec4"], [2])
    T["ur_tensor_vec8"] = b.TensorType(ut["vec8"], [2])
    T["ur_fn_vec4"] = b.FunctionType.from_lists([ut["vec4"]], [b.i32])
    T["ur_fn_vec8"] = b.FunctionType.from_lists([ut["vec8"]], [b.i32])
    for x, y in (("vec4", "vec8"), ("vec4", "vec_empty"), ("vec4", "arg4"), ("opq_t1", "opq_t2"), ("tensor_vec4", "tensor_vec8"),
                 ("fn_vec4", "fn_vec8"), ("vec4", "vec4")):
        UNREG_TYPE_FAMILIES.append((f"{x}/{y}", "ur_" + x, "ur_" + y))
    for x, y in (("vec4", "vec8"), ("opq_t1", "opq_t2")):
        UNREG_ATTR_FAMILIES.append((f"ty_{x}/{y}", "ur_ty_" + x, "ur_ty_" + y))
    _CTX = Context(allow_unregistered=True)
    _CTX.load_dialect(b.Builtin)
    _CTX.load_dialect(Test)


def register_type(key: str, t):
    _init_pools()
    TYPES[key] = t
    if key not in SAFE_TYPE_KEYS:
        SAFE_TYPE_KEYS.append(key)


def register_attr(key: str, a):
    _init_pools()
    ATTRS[key] = a
    if key not in SAFE_ATTR_KEYS:
        SAFE_ATTR_KEYS.append(key)


# --------------------------------------------------------------------------------------------- config
@dataclass
class Cfg:
    root: str = "module"          # "module" | "op" | "region" | "block"
    verifiable: bool = True       # root.verify() must succeed (module roots)
    max_ops: int = 30             # total op budget (soft: mandatory terminators may exceed it slightly)
    max_depth: int = 3            # region nesting depth below the root
    max_blocks: int = 4           # blocks per multi-block region
    max_block_ops: int = 5        # ops drawn per block (before terminator)
    max_regions: int = 2
    max_operands: int = 3
    max_results: int = 3
    max_block_args: int = 3
    n_outside: int = 0            # free values referenced from outside the generated piece
    p_region: float = 0.35        # an op gets regions
    p_multiblock: float = 0.4     # a region gets >1 blocks
    p_empty_region: float = 0.05  # a region with no block at all
    p_empty_block: float = 0.0    # blocks without ops (non-verifiable single-block regions of test ops excluded)
    p_unregistered: float = 0.2
    p_hint: float = 0.3
    p_attr: float = 0.4
    p_prop: float = 0.3
    float_edge_attrs: bool = False  # also draw attributes from the float corner-case pool (fe_* keys of ATTRS)
    p_loc: float = 0.0            # an op / a block argument carries a non-default source location (FileLineColLoc)
    p_successor: float = 0.8      # a terminator in a multi-block region branches
    entry_successors: bool = False  # allow branches to the ENTRY block of a region (MLIR forbids it; xDSL's verifier
    #                                 does not, but the printer omits the entry label, so such IR does not re-parse)
    # operand source weights
    w_back: float = 4.0           # earlier value of the same block / own block argument
    w_enclosing: float = 3.0      # defined before the enclosing op in an enclosing block (or its block args)
    w_fwd_same_block: float = 1.5  # defined later in the same block (graph region)
    w_other_block: float = 1.5    # defined in another block of the same region (earlier or later)
    w_enclosing_fwd: float = 1.0  # defined after the enclosing op / in other blocks of enclosing regions / own result in region
    w_outside: float = 2.0
    p_value_cycle: float = 0.0    # allow def-use cycles (self use, mutual use); needs the operand setter at build time
    types: tuple = ("i32", "i64", "f32", "index", "i1", "tt_a", "tensor", "memref", "fn")

    @staticmethod
    def plain(**kw):
        """Dominance-respecting IR only (no forward value references)."""
        return Cfg(w_fwd_same_block=0.0, w_other_block=0.0, w_enclosing_fwd=0.0, **kw)

    @staticmethod
    def hostile(**kw):
        """Everything on: forward references, cycles, empty blocks, wild terminators."""
        d = dict(verifiable=False, entry_successors=True, p_empty_block=0.1, p_loc=0.15, p_value_cycle=0.15, w_fwd_same_block=3.0, w_other_block=3.0,
                 w_enclosing_fwd=2.5, p_multiblock=0.5)
        d.update(kw)
        return Cfg(**d)


# --------------------------------------------------------------------------------------------- spec walking
def _root_ops(spec):
    n = spec["node"]
    if spec["root"] in ("module", "op"):
        return [n]
    if spec["root"] == "block":
        return list(n["ops"])
    return [o for b in n for o in b["ops"]]


def _root_blocks(spec):
    if spec["root"] == "block":
        return [spec["node"]]
    if spec["root"] == "region":
        return list(spec["node"])
    return []


def walk_ops(spec):
    """All op dicts in walk order (op, then its regions' blocks' ops)."""
    def rec_op(o):
        yield o
        for r in o["regions"]:
            for b in r:
                for c in b["ops"]:
                    yield from rec_op(c)
    if spec["root"] in ("module", "op"):
        yield from rec_op(spec["node"])
    else:
        for b in _root_blocks(spec):
            for o in b["ops"]:
                yield from rec_op(o)


def walk_blocks(spec):
    def rec_block(b):
        yield b
        for o in b["ops"]:
            for r in o["regions"]:
                for c in r:
                    yield from rec_block(c)
    if spec["root"] in ("module", "op"):
        for r in spec["node"]["regions"]:
            for b in r:
                yield from rec_block(b)
    else:
        for b in _root_blocks(spec):
            yield from rec_block(b)


def _regions_of(spec):
    """[(owner op dict | None, region index, list of blocks)] for every region incl. a root region."""
    out = []
    if spec["root"] == "region":
        out.append((None, 0, spec["node"]))
    for o in walk_ops(spec):
        for i, r in enumerate(o["regions"]):
            out.append((o, i, r))
    return out


class _Index:
    """Positional index of a spec: parents, order numbers."""

    def __init__(self, spec):
        self.spec = spec
        self.op = {}          # id -> op dict
        self.block = {}       # id -> block dict
        self.op_parent = {}   # op id -> block id | None
        self.block_parent = {}  # block id -> (owner op id | None, region idx, region list)
        self.order = {}       # op id -> walk order
        for n, o in enumerate(walk_ops(spec)):
            self.op[o["id"]] = o
            self.order[o["id"]] = n
            self.op_parent.setdefault(o["id"], None)
            for ri, r in enumerate(o["regions"]):
                for b in r:
                    self.block_parent[b["id"]] = (o["id"], ri, r)
        for b in walk_blocks(spec):
            self.block[b["id"]] = b
            self.block_parent.setdefault(b["id"], (None, 0, spec["node"] if spec["root"] == "region" else [b]))
            for o in b["ops"]:
                self.op_parent[o["id"]] = b["id"]

    def ancestors_blocks(self, op_id):
        """[(block id, op id of the ancestor (or the op itself) that sits directly in that block)] innermost first."""
        out = []
        cur = op_id
        while True:
            bid = self.op_parent.get(cur)
            if bid is None:
                return out
            out.append((bid, cur))
            owner = self.block_parent[bid][0]
            if owner is None:
                return out
            cur = owner

    def classify_visible(self, op_id, n_outside=0):
        """Visible values for an operand of op_id, by category."""
        cats = {"back": [], "enclosing": [], "fwd_same_block": [], "other_block": [], "enclosing_fwd": [], "outside": [],
                "self": []}
        chain = self.ancestors_blocks(op_id)
        for level, (bid, at_op) in enumerate(chain):
            region = self.block_parent[bid][2]
            for blk in region:
                same = blk["id"] == bid
                for i in range(len(blk["args"])):
                    ref = ["a", blk["id"], i]
                    if same:
                        cats["back" if level == 0 else "enclosing"].append(ref)
                    else:
                        cats["other_block" if level == 0 else "enclosing_fwd"].append(ref)
                seen_at = False
                for o in blk["ops"]:
                    if same and o["id"] == at_op:
                        seen_at = True
                        if level == 0:
                            cats["self"].extend(["r", o["id"], i] for i in range(len(o["res"])))
                        else:  # result of an enclosing op used inside its own region
                            cats["enclosing_fwd"].extend(["r", o["id"], i] for i in range(len(o["res"])))
                        continue
                    refs = [["r", o["id"], i] for i in range(len(o["res"]))]
                    if same:
                        if level == 0:
                            cats["fwd_same_block" if seen_at else "back"].extend(refs)
                        else:
                            cats["enclosing_fwd" if seen_at else "enclosing"].extend(refs)
                    else:
                        cats["other_block" if level == 0 else "enclosing_fwd"].extend(refs)
        # the root op's own results are visible inside its regions
        if self.spec["root"] in ("module", "op"):
            root = self.spec["node"]
            if root["id"] != op_id:
                cats["enclosing_fwd"].extend(["r", root["id"], i] for i in range(len(root["res"])))
            else:
                cats["self"].extend(["r", root["id"], i] for i in range(len(root["res"])))
        cats["outside"] = [["x", i] for i in range(n_outside)]
        return cats


def visible_refs(spec, op_id):
    idx = _Index(spec)
    c = idx.classify_visible(op_id, len(spec.get("outside", ())))
    out = []
    for k, v in c.items():
        out.extend(v)
    return out


# --------------------------------------------------------------------------------------------- generation
class _Gen:
    def __init__(self, rng: random.Random, cfg: Cfg):
        self.rng, self.cfg = rng, cfg
        self.nop = 0
        self.nblock = 0
        self.budget = cfg.max_ops

    def ty(self):
        return self.rng.choice(self.cfg.types)

    def hint(self):
        return self.rng.choice(HINTS) if self.rng.random() < self.cfg.p_hint else None

    def new_op(self, name, depth, allow_regions=True):
        rng, cfg = self.rng, self.cfg
        oid = self.nop
        self.nop += 1
        self.budget -= 1
        nres = rng.choice((0, 1, 1, 1, 2, cfg.max_results)) if cfg.max_results else 0
        nres = min(nres, cfg.max_results)
        res = [self.ty() for _ in range(nres)]
        o = {"id": oid, "name": name, "res": res, "rh": [self.hint() for _ in res], "opnds": [], "succ": [],
             "attrs": [], "props": [], "regions": []}
        if cfg.p_loc and rng.random() < cfg.p_loc:
            o["loc"] = [rng.choice(("a.mlir", "dir/b.py")), rng.randint(1, 99), rng.randint(0, 40)]
        if rng.random() < cfg.p_attr:
            keys = rng.sample(ATTR_KEYS, rng.randint(1, 3))
            o["attrs"] = [[k, rng.choice(self._attr_keys)] for k in keys]
        if rng.random() < cfg.p_prop:
            pk = UNREG_PROP_KEYS if name.split(".")[0] in ("unreg", "custom") else PROP_KEYS
            keys = rng.sample(pk, rng.randint(1, len(pk)))
            o["props"] = [[k, rng.choice(self._attr_keys)] for k in keys]
        if allow_regions and depth < cfg.max_depth and self.budget > 0 and rng.random() < cfg.p_region:
            for _ in range(rng.randint(1, cfg.max_regions)):
                o["regions"].append(self.new_region(depth + 1, parent_name=name))
        return o

    @property
    def _attr_keys(self):
        if self.cfg.float_edge_attrs:
            return sorted(ATTRS)
        return SAFE_ATTR_KEYS

    def plain_name(self):
        if self.rng.random() < self.cfg.p_unregistered:
            return self.rng.choice(UNREG_NAMES)
        return self.rng.choice(PLAIN_OP_NAMES)

    def new_region(self, depth, parent_name):
        rng, cfg = self.rng, self.cfg
        if parent_name != "builtin.module" and rng.random() < cfg.p_empty_region:
            return []
        multi = parent_name != "builtin.module" and rng.random() < cfg.p_multiblock and cfg.max_blocks >= 2
        nb = rng.randint(2, cfg.max_blocks) if multi else 1
        # xDSL wants a terminator at the end of every block of a multi-block region and of the single block of a
        # region whose parent op lacks NoTerminator (unregistered parents answer True to every has_trait query)
        parent_noterm = parent_name is None or parent_name == "builtin.module" or \
            parent_name.split(".")[0] in ("unreg", "custom")
        blocks = []
        for bi in range(nb):
            need_term = cfg.verifiable and (nb > 1 or not parent_noterm)
            blocks.append(self.new_block(depth, need_term, entry=(bi == 0), module=(parent_name == "builtin.module")))
        # successors: only blocks of this region
        ids = [b["id"] for b in blocks] if cfg.entry_successors else [b["id"] for b in blocks[1:]]
        for b in blocks:
            if not b["ops"]:
                continue
            cands = [b["ops"][-1]]
            if not cfg.verifiable and len(b["ops"]) > 1 and rng.random() < 0.15:
                cands.append(rng.choice(b["ops"][:-1]))
            for o in cands:
                can_branch = o["name"] in TERMINATOR_NAMES or o["name"].split(".")[0] in ("unreg", "custom") or \
                    (not cfg.verifiable and o["name"] in ("test.pureop", "test.op_with_memread", "test.op_with_memwrite"))
                if can_branch and nb > 1 and rng.random() < cfg.p_successor:
                    o["succ"] = [rng.choice(ids) for _ in range(rng.choice((1, 1, 2, 3)))]
        return blocks

    def new_block(self, depth, need_term, entry, module=False):
        rng, cfg = self.rng, self.cfg
        bid = self.nblock
        self.nblock += 1
        nargs = 0 if module else rng.choice((0, 0, 1, 2, cfg.max_block_args))
        nargs = min(nargs, cfg.max_block_args)
        args = [self.ty() for _ in range(nargs)]
        b = {"id": bid, "args": args, "ah": [self.hint() for _ in args], "ops": []}
        if cfg.p_loc and args and rng.random() < cfg.p_loc:
            b["al"] = [[rng.choice(("a.mlir", "dir/b.py")), rng.randint(1, 99), rng.randint(0, 40)] if rng.random() < 0.6 else None
                       for _ in args]
        if rng.random() < cfg.p_empty_block and (not cfg.verifiable or not need_term):
            return b
        n = rng.randint(0, cfg.max_block_ops)
        if module:
            n = max(n, min(3, cfg.max_ops))
        for _ in range(n):
            if self.budget <= 0:
                break
            b["ops"].append(self.new_op(self.plain_name(), depth))
        if need_term:
            b["ops"].append(self.new_op("test.termop", depth, allow_regions=rng.random() < 0.2))
        elif not cfg.verifiable and rng.random() < 0.3 and self.budget > 0:
            b["ops"].append(self.new_op(rng.choice(TERMINATOR_NAMES + UNREG_NAMES), depth))
        return b

    # ---- wiring
    def wire(self, spec):
        rng, cfg = self.rng, self.cfg
        idx = _Index(spec)
        deps: dict[int, set] = {o["id"]: set() for o in walk_ops(spec)}  # op id -> op ids whose results it uses

        def reaches(src, dst):
            """does op src (transitively) use a result of op dst?"""
            seen, stack = set(), [src]
            while stack:
                c = stack.pop()
                if c == dst:
                    return True
                if c in seen:
                    continue
                seen.add(c)
                stack.extend(deps[c])
            return False

        weights = {"back": cfg.w_back, "enclosing": cfg.w_enclosing, "fwd_same_block": cfg.w_fwd_same_block,
                   "other_block": cfg.w_other_block, "enclosing_fwd": cfg.w_enclosing_fwd, "outside": cfg.w_outside,
                   "self": 1.0}
        for o in walk_ops(spec):
            if o["name"] == "builtin.module":
                continue
            cats = idx.classify_visible(o["id"], len(spec["outside"]))
            nopnd = rng.choice((0, 1, 1, 2, 2, cfg.max_operands)) if cfg.max_operands else 0
            nopnd = min(nopnd, cfg.max_operands)
            for _ in range(nopnd):
                allow_cycle = rng.random() < cfg.p_value_cycle
                avail = [(k, v) for k, v in cats.items() if v and weights[k] > 0 and (k != "self" or allow_cycle)]
                if not avail:
                    break
                k, refs = rng.choices(avail, weights=[weights[a[0]] for a in avail])[0]
                for _try in range(4):
                    ref = rng.choice(refs)
                    if ref[0] == "r" and not allow_cycle and (ref[1] == o["id"] or reaches(ref[1], o["id"])):
                        continue
                    o["opnds"].append(ref)
                    if ref[0] == "r":
                        deps[o["id"]].add(ref[1])
                    break


def gen_spec(rng: random.Random, cfg: Cfg | None = None):
    _init_pools()
    cfg = cfg or Cfg()
    g = _Gen(rng, cfg)
    spec = {"root": cfg.root, "node": None, "outside": [g.ty() for _ in range(cfg.n_outside)]}
    if cfg.root == "module":
        oid = g.nop
        g.nop += 1
        node = {"id": oid, "name": "builtin.module", "res": [], "rh": [], "opnds": [], "succ": [], "attrs": [],
                "props": [], "regions": []}
        node["regions"].append(g.new_region(0, "builtin.module"))
        if rng.random() < 0.2:
            node["attrs"] = [["test.key", "unit"]]
    elif cfg.root == "op":
        node = g.new_op(g.plain_name(), 0, allow_regions=False)
        for _ in range(rng.randint(1, max(1, cfg.max_regions))):
            node["regions"].append(g.new_region(1, node["name"]))
    elif cfg.root == "region":
        node = g.new_region(0, None)
        if not node:
            node = [g.new_block(0, False, True)]
    elif cfg.root == "block":
        node = g.new_block(0, False, True)
    else:
        raise ValueError(cfg.root)
    spec["node"] = node
    g.wire(spec)
    return spec


# --------------------------------------------------------------------------------------------- build
@dataclass
class Built:
    root: object
    ops: dict
    blocks: dict
    outside: list
    spec: dict
    setter_patches: int = 0
    keepalive: list = dataclasses.field(default_factory=list)

    def value(self, ref):
        if ref[0] == "r":
            return self.ops[ref[1]].results[ref[2]]
        if ref[0] == "a":
            return self.blocks[ref[1]].args[ref[2]]
        return self.outside[ref[1]]


def _op_class(name):
    from xdsl.dialects import test as t
    from xdsl.dialects.builtin import ModuleOp
    table = {"test.op": t.TestOp, "test.termop": t.TestTermOp, "test.pureop": t.TestPureOp,
             "test.op_with_memread": t.TestReadOp, "test.op_with_memwrite": t.TestWriteOp, "builtin.module": ModuleOp}
    if name in table:
        return table[name]
    return _CTX.get_op(name)  # unregistered op class (Context(allow_unregistered=True))


def _loc(l):
    from xdsl.dialects.builtin import FileLineColLoc, IntAttr, StringAttr
    return FileLineColLoc(StringAttr(l[0]), IntAttr(l[1]), IntAttr(l[2]))


def build(spec, outside=None) -> Built:
    """Materialise a spec. `outside`: optional list of SSAValues to use for the ["x", i] refs (default: fresh
    results of detached test.op holders, kept alive in Built.keepalive)."""
    _init_pools()
    from xdsl.ir import Block, Region
    from xdsl.utils.test_value import create_ssa_value
    keep = []
    if outside is None:
        outside = []
        for tk in spec.get("outside", ()):
            v = create_ssa_value(TYPES[tk])
            keep.append(v.owner)
            outside.append(v)
    ops_spec = {o["id"]: o for o in walk_ops(spec)}
    blocks_spec = {b["id"]: b for b in walk_blocks(spec)}
    if len(ops_spec) != sum(1 for _ in walk_ops(spec)) or len(blocks_spec) != sum(1 for _ in walk_blocks(spec)):
        raise ValueError("duplicate ids in spec")
    blocks = {}
    for bid, b in blocks_spec.items():
        blk = Block(arg_types=[TYPES[t] for t in b["args"]])
        for a, h in zip(blk.args, b["ah"]):
            if h is not None:
                a.name_hint = h
        for a, loc in zip(blk.args, b.get("al") or ()):
            if loc is not None:
                a.location = _loc(loc)
        blocks[bid] = blk
    ops: dict = {}
    patches = []  # (op id, operand index, ref)
    state = {}    # op id -> 1 in progress, 2 done

    def create(oid):
        # iterative DFS over result dependencies
        stack = [(oid, 0)]
        while stack:
            cur, i = stack.pop()
            if state.get(cur) == 2:
                continue
            o = ops_spec[cur]
            state[cur] = 1
            pushed = False
            refs = o["opnds"]
            while i < len(refs):
                r = refs[i]
                i += 1
                if r[0] == "r" and state.get(r[1]) is None:
                    stack.append((cur, i))
                    stack.append((r[1], 0))
                    pushed = True
                    break
            if pushed:
                continue
            operands = []
            for k, r in enumerate(refs):
                if r[0] == "r":
                    if state.get(r[1]) == 2:
                        operands.append(ops[r[1]].results[r[2]])
                    else:  # def-use cycle: placeholder now, patched through the operand setter afterwards
                        ph = create_ssa_value(TYPES[ops_spec[r[1]]["res"][r[2]]])
                        keep.append(ph.owner)
                        operands.append(ph)
                        patches.append((cur, k, r))
                elif r[0] == "a":
                    operands.append(blocks[r[1]].args[r[2]])
                else:
                    operands.append(outside[r[1]])
            cls = _op_class(o["name"])
            op = cls.create(operands=operands, result_types=[TYPES[t] for t in o["res"]],
                            properties={k: ATTRS[v] for k, v in o["props"]},
                            attributes={k: ATTRS[v] for k, v in o["attrs"]},
                            successors=[blocks[s] for s in o["succ"]],
                            regions=[Region() for _ in o["regions"]],
                            location=_loc(o["loc"]) if o.get("loc") else None)
            for res, h in zip(op.results, o["rh"]):
                if h is not None:
                    res.name_hint = h
            ops[cur] = op
            state[cur] = 2

    for oid in ops_spec:
        create(oid)
    for oid, k, r in patches:
        ops[oid].operands[k] = ops[r[1]].results[r[2]]
    # assemble the tree
    for oid, o in ops_spec.items():
        for ri, r in enumerate(o["regions"]):
            for b in r:
                ops[oid].regions[ri].add_block(blocks[b["id"]])
    for bid, b in blocks_spec.items():
        for o in b["ops"]:
            blocks[bid].add_op(ops[o["id"]])
    if spec["root"] in ("module", "op"):
        root = ops[spec["node"]["id"]]
    elif spec["root"] == "block":
        root = blocks[spec["node"]["id"]]
    else:
        root = Region()
        for b in spec["node"]:
            root.add_block(blocks[b["id"]])
    return Built(root=root, ops=ops, blocks=blocks, outside=list(outside), spec=spec, setter_patches=len(patches),
                 keepalive=keep)


def gen(rng: random.Random, cfg: Cfg | None = None) -> Built:
    return build(gen_spec(rng, cfg))


# --------------------------------------------------------------------------------------------- features
def features(spec) -> dict:
    idx = _Index(spec)
    f = dict(ops=0, blocks=0, regions=0, depth=0, multi_block_regions=0, fwd_value_refs=0, fwd_block_refs=0,
             back_block_refs=0, self_block_refs=0, enclosing_refs=0, outside_refs=0, own_result_in_region=0,
             value_cycles=0, block_args=0, hints=0, attrs=0, props=0, unregistered=0, empty_blocks=0,
             empty_regions=0, operands=0, successors=0)
    border = {b["id"]: n for n, b in enumerate(walk_blocks(spec))}
    for owner, ri, r in _regions_of(spec):
        f["regions"] += 1
        if len(r) > 1:
            f["multi_block_regions"] += 1
        if not r:
            f["empty_regions"] += 1
    for b in walk_blocks(spec):
        f["blocks"] += 1
        f["block_args"] += len(b["args"])
        f["hints"] += sum(h is not None for h in b["ah"])
        if not b["ops"]:
            f["empty_blocks"] += 1
    for o in walk_ops(spec):
        f["ops"] += 1
        f["hints"] += sum(h is not None for h in o["rh"])
        f["attrs"] += len(o["attrs"])
        f["props"] += len(o["props"])
        f["operands"] += len(o["opnds"])
        f["successors"] += len(o["succ"])
        if o["name"].split(".")[0] in ("unreg", "custom"):
            f["unregistered"] += 1
        chain = idx.ancestors_blocks(o["id"])
        f["depth"] = max(f["depth"], len(chain))
        my_block = chain[0][0] if chain else None
        anc_ops = {a for _, a in chain[1:]}
        if spec["root"] in ("module", "op") and spec["node"]["id"] != o["id"]:
            anc_ops.add(spec["node"]["id"])
        for s in o["succ"]:
            if s == my_block:
                f["self_block_refs"] += 1
            elif border[s] > border.get(my_block, -1):
                f["fwd_block_refs"] += 1
            else:
                f["back_block_refs"] += 1
        for r in o["opnds"]:
            if r[0] == "x":
                f["outside_refs"] += 1
            elif r[0] == "a":
                if r[1] != my_block:
                    if border[r[1]] > border.get(my_block, -1):
                        f["fwd_value_refs"] += 1
                    else:
                        f["enclosing_refs"] += 1
            else:
                d = r[1]
                if d == o["id"]:
                    f["value_cycles"] += 1
                    f["fwd_value_refs"] += 1
                elif d in anc_ops:
                    f["own_result_in_region"] += 1
                    f["fwd_value_refs"] += 1
                elif idx.order[d] > idx.order[o["id"]]:
                    f["fwd_value_refs"] += 1
                elif idx.op_parent.get(d) != my_block:
                    f["enclosing_refs"] += 1
    # def-use cycles between distinct ops
    deps = {o["id"]: {r[1] for r in o["opnds"] if r[0] == "r"} for o in walk_ops(spec)}
    color = {}

    def dfs(u):
        color[u] = 1
        n = 0
        for v in deps[u]:
            if v == u:
                continue
            if color.get(v) == 1:
                n += 1
            elif color.get(v) is None:
                n += dfs(v)
        color[u] = 2
        return n
    for u in deps:
        if color.get(u) is None:
            f["value_cycles"] += dfs(u)
    return f


# --------------------------------------------------------------------------------------------- mutation
MUTATION_KINDS = ("op_name", "operand_rewire", "operand_swap", "operand_drop", "operand_add", "result_type",
                  "result_add", "blockarg_type", "blockarg_add", "attr_value", "attr_key", "attr_add", "attr_drop",
                  "prop_value", "prop_add", "prop_drop", "successor", "successor_drop", "block_order", "op_order",
                  "region_add", "block_add", "op_insert", "op_drop", "nesting")
NEUTRAL_KINDS = ("hint", "dict_order")


def mutate_spec(rng: random.Random, spec, kind: str | None = None, attr_keys=None):
    """Single-point mutation of a deep copy. Returns (new_spec, kind, note) or None when the kind does not
    apply to this spec. The result may still be isomorphic to the input (e.g. rewiring between two
    indistinguishable values): the caller decides with the canonical form."""
    _init_pools()
    s = copy.deepcopy(spec)
    kind = kind or rng.choice(MUTATION_KINDS)
    ops = [o for o in walk_ops(s) if o["name"] != "builtin.module"]
    blocks = list(walk_blocks(s))
    regions = _regions_of(s)
    types = list(SAFE_TYPE_KEYS)
    attrs = list(attr_keys) if attr_keys is not None else list(SAFE_ATTR_KEYS)
    next_op = max([o["id"] for o in walk_ops(s)] + [-1]) + 1
    next_block = max([b["id"] for b in blocks] + [-1]) + 1

    def pick(seq):
        seq = list(seq)
        return rng.choice(seq) if seq else None

    if kind == "op_name":
        o = pick(ops)
        if o is None:
            return None
        unreg = o["name"].split(".")[0] in ("unreg", "custom")
        pool = [n for n in (UNREG_NAMES if unreg else ("test.op", "test.pureop", "test.termop", "test.op_with_memread"))
                if n != o["name"]]
        new = rng.choice(pool)
        note = f"op {o['id']} {o['name']} -> {new}"
        o["name"] = new
        return s, kind, note
    if kind in ("operand_rewire", "operand_add"):
        cand = [o for o in ops if (o["opnds"] or kind == "operand_add")]
        o = pick(cand)
        if o is None:
            return None
        vis = visible_refs(s, o["id"])
        if kind == "operand_add":
            if not vis:
                return None
            r = rng.choice(vis)
            o["opnds"].insert(rng.randint(0, len(o["opnds"])), r)
            return s, kind, f"op {o['id']} +operand {r}"
        i = rng.randrange(len(o["opnds"]))
        vis = [r for r in vis if r != o["opnds"][i]]
        if not vis:
            return None
        r = rng.choice(vis)
        note = f"op {o['id']} operand {i}: {o['opnds'][i]} -> {r}"
        o["opnds"][i] = r
        return s, kind, note
    if kind == "operand_swap":
        o = pick(o for o in ops if len(o["opnds"]) >= 2 and len({tuple(r) for r in o["opnds"]}) >= 2)
        if o is None:
            return None
        for _ in range(10):
            i, j = rng.sample(range(len(o["opnds"])), 2)
            if o["opnds"][i] != o["opnds"][j]:
                o["opnds"][i], o["opnds"][j] = o["opnds"][j], o["opnds"][i]
                return s, kind, f"op {o['id']} operands {i}<->{j}"
        return None
    if kind == "operand_drop":
        o = pick(o for o in ops if o["opnds"])
        if o is None:
            return None
        i = rng.randrange(len(o["opnds"]))
        del o["opnds"][i]
        return s, kind, f"op {o['id']} -operand {i}"
    if kind == "result_type":
        o = pick(o for o in ops if o["res"])
        if o is None:
            return None
        i = rng.randrange(len(o["res"]))
        new = rng.choice([t for t in types if t != o["res"][i]])
        note = f"op {o['id']} result {i}: {o['res'][i]} -> {new}"
        o["res"][i] = new
        return s, kind, note
    if kind == "result_add":
        o = pick(ops)
        if o is None:
            return None
        o["res"].append(rng.choice(types))
        o["rh"].append(None)
        return s, kind, f"op {o['id']} +result"
    if kind == "blockarg_type":
        b = pick(b for b in blocks if b["args"])
        if b is None:
            return None
        i = rng.randrange(len(b["args"]))
        new = rng.choice([t for t in types if t != b["args"][i]])
        note = f"block {b['id']} arg {i}: {b['args'][i]} -> {new}"
        b["args"][i] = new
        return s, kind, note
    if kind == "blockarg_add":
        b = pick(blocks)
        if b is None:
            return None
        b["args"].append(rng.choice(types))
        b["ah"].append(None)
        return s, kind, f"block {b['id']} +arg"
    if kind in ("attr_value", "attr_key", "attr_add", "attr_drop", "prop_value", "prop_add", "prop_drop"):
        field = "attrs" if kind.startswith("attr") else "props"
        what = kind.split("_")[1]
        if what == "add":
            o = pick(ops)
            if o is None:
                return None
            unreg = o["name"].split(".")[0] in ("unreg", "custom")
            keys = ATTR_KEYS if field == "attrs" else (UNREG_PROP_KEYS if unreg else PROP_KEYS)
            free = [k for k in keys if k not in [e[0] for e in o[field]]]
            if not free:
                return None
            k = rng.choice(free)
            o[field].insert(rng.randint(0, len(o[field])), [k, rng.choice(attrs)])
            return s, kind, f"op {o['id']} +{field[:-1]} {k}"
        o = pick(o for o in ops if o[field])
        if o is None:
            return None
        i = rng.randrange(len(o[field]))
        if what == "drop":
            k = o[field][i][0]
            del o[field][i]
            return s, kind, f"op {o['id']} -{field[:-1]} {k}"
        if what == "value":
            new = rng.choice([a for a in attrs if a != o[field][i][1]])
            note = f"op {o['id']} {field[:-1]} {o[field][i][0]}: {o[field][i][1]} -> {new}"
            o[field][i][1] = new
            return s, kind, note
        unreg = o["name"].split(".")[0] in ("unreg", "custom")
        keys = ATTR_KEYS
        free = [k for k in keys if k not in [e[0] for e in o[field]]]
        if not free:
            return None
        new = rng.choice(free)
        note = f"op {o['id']} attr key {o[field][i][0]} -> {new}"
        o[field][i][0] = new
        return s, kind, note
    if kind in ("successor", "successor_drop"):
        idx = _Index(s)
        o = pick(o for o in ops if o["succ"])
        if o is None:
            return None
        i = rng.randrange(len(o["succ"]))
        if kind == "successor_drop":
            del o["succ"][i]
            return s, kind, f"op {o['id']} -successor {i}"
        region = idx.block_parent[idx.op_parent[o["id"]]][2] if idx.op_parent.get(o["id"]) is not None else []
        cand = [b["id"] for b in region if b["id"] != o["succ"][i]]
        if not cand:
            return None
        new = rng.choice(cand)
        note = f"op {o['id']} successor {i}: ^{o['succ'][i]} -> ^{new}"
        o["succ"][i] = new
        return s, kind, note
    if kind == "block_order":
        r = pick(r for _, _, r in regions if len(r) >= 2)
        if r is None:
            return None
        i, j = rng.sample(range(len(r)), 2)
        r[i], r[j] = r[j], r[i]
        return s, kind, f"blocks ^{r[j]['id']}<->^{r[i]['id']} swapped"
    if kind == "op_order":
        b = pick(b for b in blocks if len(b["ops"]) >= 2)
        if b is None:
            return None
        i = rng.randrange(len(b["ops"]) - 1)
        b["ops"][i], b["ops"][i + 1] = b["ops"][i + 1], b["ops"][i]
        return s, kind, f"block {b['id']} ops at {i},{i + 1} swapped"
    if kind == "region_add":
        o = pick(ops)
        if o is None:
            return None
        o["regions"].insert(rng.randint(0, len(o["regions"])), [])
        return s, kind, f"op {o['id']} +empty region"
    if kind == "block_add":
        cand = [r for own, _, r in regions if own is None or own["name"] != "builtin.module"]
        r = pick(cand)
        if r is None:
            return None
        r.insert(rng.randint(0, len(r)), {"id": next_block, "args": [], "ah": [], "ops": []})
        return s, kind, "+empty block"
    if kind == "op_insert":
        b = pick(blocks)
        if b is None:
            return None
        b["ops"].insert(rng.randint(0, len(b["ops"])), {"id": next_op, "name": "test.op", "res": [], "rh": [], "opnds": [],
                                                        "succ": [], "attrs": [], "props": [], "regions": []})
        return s, kind, f"block {b['id']} +op"
    if kind == "op_drop":
        used = {r[1] for o in walk_ops(s) for r in o["opnds"] if r[0] == "r"}
        cand = [(b, i) for b in blocks for i, o in enumerate(b["ops"]) if o["id"] not in used and not o["regions"]]
        c = pick(cand)
        if c is None:
            return None
        b, i = c
        oid = b["ops"][i]["id"]
        del b["ops"][i]
        return s, kind, f"block {b['id']} -op {oid}"
    if kind == "nesting":
        # move a region-less sibling into the first block of a neighbour's region (refs are by id: still buildable)
        cand = []
        for b in blocks:
            for i, o in enumerate(b["ops"]):
                if o["regions"] and o["regions"][0] and len(b["ops"]) >= 2:
                    for j, p in enumerate(b["ops"]):
                        if j != i and not p["regions"] and not p["succ"]:
                            cand.append((b, i, j))
        c = pick(cand)
        if c is None:
            return None
        b, i, j = c
        host, moved = b["ops"][i], b["ops"][j]
        del b["ops"][j]
        host["regions"][0][0]["ops"].insert(0, moved)
        return s, kind, f"op {moved['id']} moved into region of op {host['id']}"
    if kind == "hint":
        vals = [(o, "rh", i) for o in ops for i in range(len(o["res"]))] + \
               [(b, "ah", i) for b in blocks for i in range(len(b["args"]))]
        v = pick(vals)
        if v is None:
            return None
        n, f, i = v
        new = rng.choice([h for h in HINTS + (None,) if h != n[f][i]])
        n[f][i] = new
        return s, kind, f"hint -> {new}"
    if kind == "dict_order":
        o = pick(o for o in ops if len(o["attrs"]) >= 2 or len(o["props"]) >= 2)
        if o is None:
            return None
        o["attrs"].reverse()
        o["props"].reverse()
        return s, kind, f"op {o['id']} attribute/property insertion order reversed"
    raise ValueError(kind)


# --------------------------------------------------------------------------------------------- raw IR walkers
def collect(root):
    """Independent walker over the raw link fields of real IR (no xDSL iterator is used):
    returns (ops, blocks, regions, values) of everything under `root` (Operation | Block | Region) in walk order;
    `values` lists results of an op when the op is visited and block arguments when the block is visited, i.e. the
    same positional order in two isomorphic trees."""
    from xdsl.ir import Block, Operation
    ops, blocks, regions, values = [], [], [], []

    def v_op(op):
        ops.append(op)
        values.extend(op.results)
        for r in op.regions:
            v_region(r)

    def v_block(b):
        blocks.append(b)
        values.extend(b._args)
        o = b._first_op
        while o is not None:
            v_op(o)
            o = o._next_op

    def v_region(r):
        regions.append(r)
        b = r._first_block
        while b is not None:
            v_block(b)
            b = b._next_block

    if isinstance(root, Operation):
        v_op(root)
    elif isinstance(root, Block):
        v_block(root)
    else:
        v_region(root)
    return ops, blocks, regions, values


def region_blocks(r):
    out = []
    b = r._first_block
    while b is not None:
        out.append(b)
        b = b._next_block
    return out


def block_ops(b):
    out = []
    o = b._first_op
    while o is not None:
        out.append(o)
        o = o._next_op
    return out


def is_inside(node, anc):
    """True when `anc` is `node` or one of its ancestors (parent chain)."""
    cur = node
    while cur is not None:
        if cur is anc:
            return True
        cur = cur.parent
    return False


# --------------------------------------------------------------------------------------------- rendering
def spec_text(spec) -> str:
    """Compact rendering for witnesses (not MLIR syntax; ids are spec ids)."""
    out = []

    def ref(r):
        return f"%r{r[1]}.{r[2]}" if r[0] == "r" else f"%a{r[1]}.{r[2]}" if r[0] == "a" else f"%x{r[1]}"

    def op(o, ind):
        res = ", ".join(f"%r{o['id']}.{i}:{t}" + (f"[{h}]" if h else "") for i, (t, h) in enumerate(zip(o["res"], o["rh"])))
        line = " " * ind + (res + " = " if res else "") + f"{o['name']}#{o['id']}(" + ", ".join(map(ref, o["opnds"])) + ")"
        if o["succ"]:
            line += " [" + ", ".join(f"^{x}" for x in o["succ"]) + "]"
        if o["props"]:
            line += " <" + ", ".join(f"{k}={v}" for k, v in o["props"]) + ">"
        if o["attrs"]:
            line += " {" + ", ".join(f"{k}={v}" for k, v in o["attrs"]) + "}"
        out.append(line)
        for r in o["regions"]:
            out.append(" " * ind + "  region {")
            for b in r:
                block(b, ind + 4)
            out.append(" " * ind + "  }")

    def block(b, ind):
        out.append(" " * ind + f"^{b['id']}(" + ", ".join(
            f"%a{b['id']}.{i}:{t}" + (f"[{h}]" if h else "") for i, (t, h) in enumerate(zip(b["args"], b["ah"]))) + "):")
        for o in b["ops"]:
            op(o, ind + 2)

    if spec["root"] in ("module", "op"):
        op(spec["node"], 0)
    elif spec["root"] == "block":
        block(spec["node"], 0)
    else:
        for b in spec["node"]:
            block(b, 0)
    if spec.get("outside"):
        out.append("outside: " + ", ".join(f"%x{i}:{t}" for i, t in enumerate(spec["outside"])))
    return "\n".join(out)
