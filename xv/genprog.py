"""genprog - random generator of typed func/arith/scf programs as MLIR *text* (custom syntax accepted by
xDSL's parser), plus input-vector generation. Text only: nothing of xDSL is imported.

API
* `Gen(rng, allow_float=True, allow_loops=True, effects=False, int_types=INT_T, bin_ops=BIN, safe_div=0.8,
       ext_calls=False)`;
  `Gen.func(name="main", nstmts=None) -> (text, argtypes, rettypes)` returns ONE `func.func` (wrap several
  in `builtin.module { ... }` yourself, or parse as is: the xDSL parser wraps top-level ops in a module).
  With `ext_calls=True` the program may call `@ext_i32(i32) -> i32`; use `Gen.prelude()` to get the
  declaration text to prepend.
* `gen_inputs(rng, argtypes, n)` -> list of argument rows; ints are bit patterns (non-negative), floats python
  floats (f32 inputs already rounded to f32). Boundary-biased.
* Constants are boundary biased; divisors are made non-zero (`ori x, 1`) with probability `safe_div` so that
  few inputs are excluded as UB; loops have small constant or masked symbolic bounds (terminating).
Extend by subclassing `Gen` and overriding `stmt` (call `super().stmt` for the default mix).
"""
import random, math, struct

INT_T = ["i1", "i8", "i16", "i32", "i64", "index"]
FLT_T = ["f32", "f64"]
W = {"i1": 1, "i8": 8, "i16": 16, "i32": 32, "i64": 64, "index": 64}
BIN = ["addi", "subi", "muli", "andi", "ori", "xori", "shli", "shrui", "shrsi", "divui", "divsi", "remui", "remsi", "floordivsi", "ceildivsi", "ceildivui", "minsi", "maxsi", "minui", "maxui"]
FBIN = ["addf", "subf", "mulf", "divf", "maximumf", "minimumf"]
PRED = ["eq", "ne", "slt", "sle", "sgt", "sge", "ult", "ule", "ugt", "uge"]
FPRED = ["false", "oeq", "ogt", "oge", "olt", "ole", "one", "ord", "ueq", "ugt", "uge", "ult", "ule", "une", "uno", "true"]


def boundary(rng, t):
    w = W[t]
    c = [0, 1, -1, 2, 3, w - 1, w, (1 << (w - 1)) - 1, -(1 << (w - 1)), 5, 7, -8, 100]
    v = rng.choice(c)
    lo, hi = -(1 << (w - 1)), (1 << (w - 1)) - 1
    if w == 1: return rng.choice([0, 1, -1]) if False else rng.choice([0, 1])
    return max(lo, min(hi, v))


def fboundary(rng):
    return rng.choice(["0.0", "-0.0", "1.0", "-1.0", "0.5", "2.0", "3.5", "1.0e+30", "1.0e-30", "0x7F800000", "0xFF800000", "0x7FC00000", "1.5", "-2.25"])


class Gen:
    def __init__(self, rng, allow_float=True, allow_cf=False, allow_loops=True, effects=False, int_types=None,
                 bin_ops=None, safe_div=0.8, ext_calls=False, flt_types=None):
        self.rng = rng; self.n = 0; self.allow_float = allow_float; self.allow_loops = allow_loops; self.effects = effects
        self.int_types = list(int_types or INT_T); self.bin_ops = list(bin_ops or BIN); self.safe_div = safe_div
        self.ext_calls = ext_calls; self.flt_types = list(flt_types or FLT_T)

    def prelude(self):
        return "func.func private @ext_i32(i32) -> i32\n" if self.ext_calls else ""

    def fresh(self):
        self.n += 1
        return f"%v{self.n}"

    def const(self, t, lines, ind):
        v = self.fresh()
        if t in W:
            if t == "i1": lines.append(f"{ind}{v} = arith.constant {self.rng.choice(['true', 'false'])}")
            else: lines.append(f"{ind}{v} = arith.constant {boundary(self.rng, t)} : {t}")
        else:
            c = fboundary(self.rng)
            if c.startswith("0x"):
                c = {"0x7F800000": "0x7F800000" if t == "f32" else "0x7FF0000000000000", "0xFF800000": "0xFF800000" if t == "f32" else "0xFFF0000000000000", "0x7FC00000": "0x7FC00000" if t == "f32" else "0x7FF8000000000000"}[c]
            lines.append(f"{ind}{v} = arith.constant {c} : {t}")
        return v

    def pick(self, env, t, lines, ind):
        c = [v for v, vt in env if vt == t]
        if c and self.rng.random() < 0.8: return self.rng.choice(c)
        return self.const(t, lines, ind)

    def stmt(self, env, lines, ind, depth):
        rng = self.rng
        r = rng.random()
        types = self.int_types + (self.flt_types if self.allow_float else [])
        t = rng.choice(types)
        if r < 0.45:
            if t in W:
                a, b = self.pick(env, t, lines, ind), self.pick(env, t, lines, ind); v = self.fresh()
                opn = rng.choice(self.bin_ops)
                if ("div" in opn or "rem" in opn) and t != "i1" and rng.random() < self.safe_div:
                    one = self.fresh(); lines.append(f"{ind}{one} = arith.constant 1 : {t}")
                    b2 = self.fresh(); lines.append(f"{ind}{b2} = arith.ori {b}, {one} : {t}"); b = b2
                lines.append(f"{ind}{v} = arith.{opn} {a}, {b} : {t}"); env.append((v, t))
            else:
                a, b = self.pick(env, t, lines, ind), self.pick(env, t, lines, ind); v = self.fresh()
                lines.append(f"{ind}{v} = arith.{rng.choice(FBIN)} {a}, {b} : {t}"); env.append((v, t))
        elif r < 0.55:
            a, b = self.pick(env, t, lines, ind), self.pick(env, t, lines, ind); v = self.fresh()
            if t in W: lines.append(f"{ind}{v} = arith.cmpi {rng.choice(PRED)}, {a}, {b} : {t}")
            else: lines.append(f"{ind}{v} = arith.cmpf {rng.choice(FPRED)}, {a}, {b} : {t}")
            env.append((v, "i1"))
        elif r < 0.63:
            c = self.pick(env, "i1", lines, ind); a, b = self.pick(env, t, lines, ind), self.pick(env, t, lines, ind); v = self.fresh()
            lines.append(f"{ind}{v} = arith.select {c}, {a}, {b} : {t}"); env.append((v, t))
        elif r < 0.70:
            if not {"i8", "i16", "i32", "i64"} <= set(self.int_types):
                env.append((self.const(t, lines, ind), t)); return
            src = rng.choice(["i8", "i16", "i32"]); dst = rng.choice([x for x in ["i16", "i32", "i64"] if W[x] > W[src]])
            a = self.pick(env, src, lines, ind); v = self.fresh()
            k = rng.choice(["extsi", "extui", "trunci"])
            if k == "trunci": a2 = self.pick(env, dst, lines, ind); lines.append(f"{ind}{v} = arith.trunci {a2} : {dst} to {src}"); env.append((v, src))
            else: lines.append(f"{ind}{v} = arith.{k} {a} : {src} to {dst}"); env.append((v, dst))
        elif r < 0.74 and "i32" in self.int_types and "index" in self.int_types:
            a = self.pick(env, "i32", lines, ind); v = self.fresh()
            lines.append(f"{ind}{v} = arith.index_cast {a} : i32 to index"); env.append((v, "index"))
        elif r < 0.84 and depth < 2:
            c = self.pick(env, "i1", lines, ind); v = self.fresh()
            lines.append(f"{ind}{v} = scf.if {c} -> ({t}) {{")
            for branch in range(2):
                e2 = list(env)
                for _ in range(rng.choice([0, 1, 2])): self.stmt(e2, lines, ind + "  ", depth + 1)
                y = self.pick(e2, t, lines, ind + "  ")
                lines.append(f"{ind}  scf.yield {y} : {t}")
                if branch == 0: lines.append(f"{ind}}} else {{")
            lines.append(f"{ind}}}"); env.append((v, t))
        elif r < 0.94 and depth < 2 and self.allow_loops:
            lb = self.const_idx(lines, ind, rng.choice([0, 0, 1, 2, -1])); ub = self.const_idx(lines, ind, rng.choice([0, 1, 3, 4, 5])) if rng.random() < 0.7 else self.bounded_idx(env, lines, ind)
            st = self.const_idx(lines, ind, rng.choice([1, 1, 2, 3]))
            init = self.pick(env, t, lines, ind); v = self.fresh(); iv = self.fresh(); acc = self.fresh()
            lines.append(f"{ind}{v} = scf.for {iv} = {lb} to {ub} step {st} iter_args({acc} = {init}) -> ({t}) {{")
            e2 = list(env) + [(iv, "index"), (acc, t)]
            for _ in range(rng.choice([1, 2, 3])): self.stmt(e2, lines, ind + "  ", depth + 1)
            y = self.pick(e2, t, lines, ind + "  ")
            lines.append(f"{ind}  scf.yield {y} : {t}")
            lines.append(f"{ind}}}"); env.append((v, t))
        elif self.ext_calls and rng.random() < 0.5:
            a = self.pick(env, "i32", lines, ind); v = self.fresh()
            lines.append(f"{ind}{v} = func.call @ext_i32({a}) : (i32) -> i32"); env.append((v, "i32"))
        elif self.effects and env:
            v, vt = rng.choice(env)
            lines.append(f'{ind}"test.op_with_memwrite"({v}) : ({vt}) -> ()')
        else:
            env.append((self.const(t, lines, ind), t))

    def const_idx(self, lines, ind, val):
        v = self.fresh(); lines.append(f"{ind}{v} = arith.constant {val} : index"); return v

    def bounded_idx(self, env, lines, ind):
        # symbolic bound clamped to [0, 7] via andi
        a = self.pick(env, "index", lines, ind); m = self.const_idx(lines, ind, 7); v = self.fresh()
        lines.append(f"{ind}{v} = arith.andi {a}, {m} : index"); return v

    def func(self, name="main", nstmts=None):
        rng = self.rng
        nargs = rng.randint(0, 4)
        types = self.int_types + (self.flt_types if self.allow_float else [])
        args = [(f"%arg{i}", rng.choice(types)) for i in range(nargs)]
        env = list(args); lines = []
        for _ in range(nstmts or rng.choice([3, 6, 10, 16])): self.stmt(env, lines, "  ", 0)
        nret = rng.randint(1, 3)
        rets = [rng.choice(env) for _ in range(nret)] if env else []
        if not rets:
            c = self.const("i32", lines, "  "); rets = [(c, "i32")]
        sig = ", ".join(f"{a}: {t}" for a, t in args)
        text = f"func.func @{name}({sig}) -> ({', '.join(t for _, t in rets)}) {{\n" + "\n".join(lines) + f"\n  func.return {', '.join(v for v, _ in rets)} : {', '.join(t for _, t in rets)}\n}}\n"
        return text, [t for _, t in args], [t for _, t in rets]


def gen_inputs(rng, argtypes, n):
    out = []
    for _ in range(n):
        row = []
        for t in argtypes:
            if t in W:
                w = W[t]
                v = rng.choice([0, 1, (1 << w) - 1, 1 << (w - 1), (1 << (w - 1)) - 1, 2, 3, 5, rng.getrandbits(w)]) & ((1 << w) - 1)
                row.append(v)
            else:
                v = rng.choice([0.0, -0.0, 1.0, -1.5, math.inf, -math.inf, math.nan, 1e30, 1e-30, rng.uniform(-10, 10)])
                if t == "f32" and not (math.isnan(v) or math.isinf(v)): v = struct.unpack("<f", struct.pack("<f", v))[0]
                row.append(v)
        out.append(row)
    return out
