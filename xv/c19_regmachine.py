"""C19 register machine: executes register-allocatable riscv / x86 dialect IR in two modes.

  * SSA mode      : environment keyed by SSA value (what the IR means before allocation),
  * register mode : environment keyed by PHYSICAL register (what the emitted assembly would do after
                    allocation: one cell per physical register, aliases collapse - x9/s1, fp/s0/x8,
                    rbx/ebx/bx/bl, xmm3/ymm3/zmm3 -, x0 hard-wired to zero, loop-carried values are never
                    copied (the riscv_scf / x86_scf lowerings emit no moves for block arguments, yields or
                    loop results), tied in/out instructions write the register of their *operand*).

Own op table, written from the RISC-V unprivileged ISA (RV32/RV64 IM + Zb* subset + F/D, NaN boxing), the
Snitch packed-SIMD description, the Intel SDM (two-address integer ops, 32-bit writes zero-extend, 8/16-bit
writes merge, VEX ops zero the upper lanes) and the xDSL lowering patterns of riscv_scf.for / x86_scf.for
(mv iv, lb; bge iv, ub, end; body; add iv, iv, step; blt iv, ub, body).  Nothing is shared with
xdsl.interpreters; only op names, operands/results/regions, immediates and register-type names are read
from the IR objects.

Two value semantics: "isa" (the op table) and "mix" (every non-copy instruction returns a 64-bit hash of its
mnemonic, immediate and operand values: an uninterpreted function that is sensitive to every operand, so a
clobbered operand cannot be masked by e.g. `and x, 0`; constants, copies and loop control stay exact).
"""
from __future__ import annotations

import hashlib
import struct
from fractions import Fraction

# ------------------------------------------------------------------------------------------ physical registers
INT_ABI = ["zero", "ra", "sp", "gp", "tp", "t0", "t1", "t2", "s0", "s1",
           "a0", "a1", "a2", "a3", "a4", "a5", "a6", "a7",
           "s2", "s3", "s4", "s5", "s6", "s7", "s8", "s9", "s10", "s11",
           "t3", "t4", "t5", "t6"]
FLOAT_ABI = ["ft0", "ft1", "ft2", "ft3", "ft4", "ft5", "ft6", "ft7", "fs0", "fs1",
             "fa0", "fa1", "fa2", "fa3", "fa4", "fa5", "fa6", "fa7",
             "fs2", "fs3", "fs4", "fs5", "fs6", "fs7", "fs8", "fs9", "fs10", "fs11",
             "ft8", "ft9", "ft10", "ft11"]
_RVX = {n: i for i, n in enumerate(INT_ABI)}
_RVX.update({f"x{i}": i for i in range(32)})
_RVX["fp"] = 8
_RVF = {n: i for i, n in enumerate(FLOAT_ABI)}
_RVF.update({f"f{i}": i for i in range(32)})

_G64 = ["rax", "rcx", "rdx", "rbx", "rsp", "rbp", "rsi", "rdi"] + [f"r{i}" for i in range(8, 16)]
_G32 = ["eax", "ecx", "edx", "ebx", "esp", "ebp", "esi", "edi"] + [f"r{i}d" for i in range(8, 16)]
_G16 = ["ax", "cx", "dx", "bx", "sp", "bp", "si", "di"] + [f"r{i}w" for i in range(8, 16)]
_G8 = ["al", "cl", "dl", "bl", "spl", "bpl", "sil", "dil"] + [f"r{i}b" for i in range(8, 16)]
_GPR = {}
for _names in (_G64, _G32, _G16, _G8):
    _GPR.update({n: i for i, n in enumerate(_names)})

# type name -> (register class, width in bits (None: XLEN), name table / prefix for the vector files, spill prefix)
_TYPES = {
    "riscv.reg": ("rv.x", None, _RVX, "j_"),
    "riscv.freg": ("rv.f", 64, _RVF, "fj_"),
    "x86.reg64": ("x86.gpr", 64, _GPR, "inf_reg_"),
    "x86.reg32": ("x86.gpr", 32, _GPR, "inf_reg32_"),
    "x86.reg16": ("x86.gpr", 16, _GPR, "inf_reg16_"),
    "x86.reg8": ("x86.gpr", 8, _GPR, "inf_reg8_"),
    "x86.ssereg": ("x86.vec", 128, "xmm", "inf_sse_"),
    "x86.avx2reg": ("x86.vec", 256, "ymm", "inf_avx2_"),
    "x86.avx512reg": ("x86.vec", 512, "zmm", "inf_avx512_"),
    "x86.avx512maskreg": ("x86.k", 64, "k", "inf_avx512_mask_"),
    "x86.rflags": ("x86.flags", 64, "rflags", "inf_rflags_"),
}


class MachineError(Exception):
    """The IR cannot be executed (kind tells why)."""

    def __init__(self, kind, detail=""):
        super().__init__(f"{kind}: {detail}")
        self.kind = kind
        self.detail = detail


def is_reg_type(tname: str) -> bool:
    return tname in _TYPES


def phys(tname: str, rname: str):
    """Canonical physical register cell for (type name, register name); None if unallocated.
    Aliases map to the same cell.  Spill ("infinite") registers j_<n>, fj_<n>, inf_reg*_<n>, ... get cells
    (class + '.inf', n): all x86 scalar widths share one spill namespace (they share one allocation pool)."""
    if not rname:
        return None
    ent = _TYPES.get(tname)
    if ent is None:
        raise MachineError("unknown-register-type", tname)
    cls, _w, table, inf = ent
    if isinstance(table, dict):
        if rname in table:
            return (cls, table[rname])
    else:
        if rname == table and table == "rflags":
            return (cls, 0)
        if rname.startswith(table) and rname[len(table):].isdigit():
            return (cls, int(rname[len(table):]))
    if rname.startswith(inf) and rname[len(inf):].isdigit():
        return (cls + ".inf", int(rname[len(inf):]))
    raise MachineError("unknown-register-name", f"{tname}<{rname}>")


ZERO = ("rv.x", 0)


def type_width(tname: str, xlen: int) -> int:
    w = _TYPES[tname][1]
    return xlen if w is None else w


def vinfo(v):
    """(type name, register name) of an SSA value (register types only)."""
    t = v.type
    return t.name, t.register_name.data


def vphys(v):
    tn, rn = vinfo(v)
    return phys(tn, rn)


# ------------------------------------------------------------------------------------------ helpers
def H(*parts) -> int:
    return int.from_bytes(hashlib.blake2b(repr(parts).encode(), digest_size=8).digest(), "little")


def mask(w):
    return (1 << w) - 1


def sx(x, w):
    x &= mask(w)
    return x - (1 << w) if x >> (w - 1) else x


CANON_S = 0x7FC00000
CANON_D = 0x7FF8000000000000
BOX = 0xFFFFFFFF00000000


def unbox_s(raw):
    """Read a single from a 64-bit float register: improperly boxed -> canonical NaN."""
    return raw & 0xFFFFFFFF if (raw & BOX) == BOX else CANON_S


def box_s(bits):
    return BOX | (bits & 0xFFFFFFFF)


def s2f(bits):
    return struct.unpack("<f", struct.pack("<I", bits & 0xFFFFFFFF))[0]


def d2f(bits):
    return struct.unpack("<d", struct.pack("<Q", bits & mask(64)))[0]


def f2d(x):
    b = struct.unpack("<Q", struct.pack("<d", x))[0]
    return CANON_D if x != x else b


def _round_fraction(fr: Fraction, mant: int, emin: int, emax: int, expbits: int) -> int:
    """Correctly rounded (RNE) IEEE encoding of an exact non-zero rational; mant = stored mantissa bits."""
    sign = 1 if fr < 0 else 0
    a = -fr if sign else fr
    # find e with 2^e <= a < 2^(e+1)
    e = a.numerator.bit_length() - a.denominator.bit_length()
    if Fraction(2) ** e > a:
        e -= 1
    elif Fraction(2) ** (e + 1) <= a:
        e += 1
    e = max(e, emin)
    scaled = a / (Fraction(2) ** (e - mant))  # integer part has mant+1 bits for normals
    q, r = divmod(scaled.numerator, scaled.denominator)
    twice = 2 * r
    if twice > scaled.denominator or (twice == scaled.denominator and (q & 1)):
        q += 1
    if q >> (mant + 1):
        q >>= 1
        e += 1
    bias = emax
    if q >> mant:  # normal
        if e > emax:
            return (sign << (mant + expbits)) | (mask(expbits) << mant)  # inf
        return (sign << (mant + expbits)) | ((e + bias) << mant) | (q & mask(mant))
    return (sign << (mant + expbits)) | q  # subnormal / zero


def _dec(bits, mant, expbits):
    """-> ('nan'|'inf'|'num', sign, Fraction)"""
    sign = bits >> (mant + expbits) & 1
    e = bits >> mant & mask(expbits)
    m = bits & mask(mant)
    bias = (1 << (expbits - 1)) - 1
    if e == mask(expbits):
        return ("nan" if m else "inf", sign, None)
    if e == 0:
        val = Fraction(m) * Fraction(2) ** (1 - bias - mant)
    else:
        val = Fraction(m | (1 << mant)) * Fraction(2) ** (e - bias - mant)
    return ("num", sign, -val if sign else val)


def _fmt(double):
    return (52, 11, CANON_D) if double else (23, 8, CANON_S)


def fp_arith(kind, xs, double):
    """IEEE add/sub/mul/div/fma (single rounding, RNE) on encodings; kind in add sub mul div fma."""
    mant, eb, canon = _fmt(double)
    bias = (1 << (eb - 1)) - 1
    emin, emax = 1 - bias, bias
    ds = [_dec(x, mant, eb) for x in xs]
    if any(d[0] == "nan" for d in ds):
        return canon
    sbit = mant + eb
    inf = lambda s: (s << sbit) | (mask(eb) << mant)
    zero = lambda s: s << sbit

    def prod(a, b):
        if a[0] == "inf" or b[0] == "inf":
            if (a[0] == "num" and a[2] == 0) or (b[0] == "num" and b[2] == 0):
                return None
            return ("inf", a[1] ^ b[1], None)
        return ("num", a[1] ^ b[1], a[2] * b[2])

    def summ(a, b):
        if a[0] == "inf" or b[0] == "inf":
            if a[0] == "inf" and b[0] == "inf":
                return None if a[1] != b[1] else ("inf", a[1], None)
            return a if a[0] == "inf" else b
        v = a[2] + b[2]
        if v == 0:
            # exact zero: sign is + unless both addends are -0 (RNE)
            az = a[1] if a[2] == 0 else None
            bz = b[1] if b[2] == 0 else None
            s = 1 if (az == 1 and bz == 1) else 0
            return ("num", s, Fraction(0))
        return ("num", 1 if v < 0 else 0, v)

    if kind in ("add", "sub"):
        a, b = ds
        if kind == "sub":
            b = (b[0], b[1] ^ 1, None if b[2] is None else -b[2])
        r = summ(a, b)
    elif kind == "mul":
        r = prod(*ds)
    elif kind == "fma":
        p = prod(ds[0], ds[1])
        r = None if p is None else summ(p, ds[2])
    elif kind == "div":
        a, b = ds
        s = a[1] ^ b[1]
        if a[0] == "inf":
            r = None if b[0] == "inf" else ("inf", s, None)
        elif b[0] == "inf":
            r = ("num", s, Fraction(0))
        elif b[2] == 0:
            r = None if a[2] == 0 else ("inf", s, None)
        else:
            r = ("num", s, a[2] / b[2])
    else:
        raise MachineError("unknown-fp-kind", kind)
    if r is None:
        return canon
    if r[0] == "inf":
        return inf(r[1])
    if r[2] == 0:
        return zero(r[1])
    return _round_fraction(r[2], mant, emin, emax, eb)


def fp_sqrt(x, double):
    mant, eb, canon = _fmt(double)
    k, s, v = _dec(x, mant, eb)
    if k == "nan":
        return canon
    if k == "num" and v == 0:
        return x
    if s:
        return canon
    if k == "inf":
        return x
    # correctly rounded sqrt of an exact rational via integer sqrt with sticky bit
    from math import isqrt
    bias = (1 << (eb - 1)) - 1
    n, d = v.numerator, v.denominator
    # scale so that the integer root has plenty (mant+3+) bits: root = isqrt(n * d * 4^k) / (d * 2^k)
    k2 = mant + 8
    num = n * d << (2 * k2)
    r = isqrt(num)
    exact = r * r == num
    fr = Fraction(2 * r + (0 if exact else 1), 2 * d << k2)  # midpoint trick: sticky half-ulp of the scaled root
    return _round_fraction(fr, mant, 1 - bias, bias, eb)


def fp_minmax(a, b, double, is_max):
    mant, eb, canon = _fmt(double)
    da, db = _dec(a, mant, eb), _dec(b, mant, eb)
    if da[0] == "nan" and db[0] == "nan":
        return canon
    if da[0] == "nan":
        return b
    if db[0] == "nan":
        return a

    def key(d):
        if d[0] == "inf":
            return (-1 if d[1] else 1, 0, 0)
        return (0, d[2], -d[1])  # -0 < +0

    ka, kb = key(da), key(db)
    if is_max:
        return a if ka >= kb else b
    return a if ka <= kb else b


def fp_cmp(a, b, double, kind):
    mant, eb, _ = _fmt(double)
    da, db = _dec(a, mant, eb), _dec(b, mant, eb)
    if da[0] == "nan" or db[0] == "nan":
        return 0

    def key(d):
        if d[0] == "inf":
            return (-1 if d[1] else 1, 0)
        return (0, d[2])

    ka, kb = key(da), key(db)
    return int({"eq": ka == kb, "lt": ka < kb, "le": ka <= kb}[kind])


def fp_from_int(n, double):
    mant, eb, _ = _fmt(double)
    if n == 0:
        return 0
    bias = (1 << (eb - 1)) - 1
    return _round_fraction(Fraction(n), mant, 1 - bias, bias, eb)


def fp_to_int(x, double, signed, w=32):
    """fcvt.w[u].{s,d} with the dynamic rounding mode at its reset value RNE; saturating; NaN -> max."""
    mant, eb, _ = _fmt(double)
    k, s, v = _dec(x, mant, eb)
    lo, hi = (-(1 << (w - 1)), (1 << (w - 1)) - 1) if signed else (0, (1 << w) - 1)
    if k == "nan":
        return hi
    if k == "inf":
        return lo if s else hi
    q, r = divmod(v.numerator, v.denominator)
    twice = 2 * r
    if twice > v.denominator or (twice == v.denominator and (q & 1)):
        q += 1
    return min(max(q, lo), hi)


def fp_class(x, double):
    mant, eb, _ = _fmt(double)
    sign = x >> (mant + eb) & 1
    e = x >> mant & mask(eb)
    m = x & mask(mant)
    if e == mask(eb):
        if m == 0:
            return 1 << (0 if sign else 7)
        return 1 << (9 if m >> (mant - 1) else 8)
    if e == 0:
        if m == 0:
            return 1 << (3 if sign else 4)
        return 1 << (2 if sign else 5)
    return 1 << (1 if sign else 6)


# ------------------------------------------------------------------------------------------ op table
def _imm(op):
    a = op.attributes.get("immediate")
    if a is None:
        a = op.properties.get("immediate")
    try:
        return a.value.data
    except AttributeError:
        raise MachineError("non-integer-immediate", op.name)


def _rv_div(a, b, w, signed, rem):
    if signed:
        a, b = sx(a, w), sx(b, w)
        if b == 0:
            return a if rem else -1
        if a == -(1 << (w - 1)) and b == -1:
            return 0 if rem else a
        q = abs(a) // abs(b)
        if (a < 0) != (b < 0):
            q = -q
        return a - q * b if rem else q
    a &= mask(w)
    b &= mask(w)
    if b == 0:
        return a if rem else mask(w)
    return a % b if rem else a // b


def _clz(x, w):
    x &= mask(w)
    return w - x.bit_length()


def _ctz(x, w):
    x &= mask(w)
    return w if x == 0 else (x & -x).bit_length() - 1


def _rot(x, n, w, left):
    x &= mask(w)
    n &= w - 1
    if not left:
        n = (w - n) & (w - 1)
    return ((x << n) | (x >> (w - n))) & mask(w) if n else x


def _w32(f):
    """RV64 *W instruction: operate on the low 32 bits, sign-extend the 32-bit result."""
    return lambda m, op, a: [sx(f(m, op, a) & mask(32), 32)]


RV_INT = {  # name -> f(machine, op, operand values) -> python int (any sign; truncated to XLEN by the writer)
    "riscv.add": lambda m, op, a: a[0] + a[1],
    "riscv.sub": lambda m, op, a: a[0] - a[1],
    "riscv.and": lambda m, op, a: a[0] & a[1],
    "riscv.or": lambda m, op, a: a[0] | a[1],
    "riscv.xor": lambda m, op, a: a[0] ^ a[1],
    "riscv.sll": lambda m, op, a: a[0] << (a[1] & (m.xlen - 1)),
    "riscv.srl": lambda m, op, a: (a[0] & mask(m.xlen)) >> (a[1] & (m.xlen - 1)),
    "riscv.sra": lambda m, op, a: sx(a[0], m.xlen) >> (a[1] & (m.xlen - 1)),
    "riscv.slt": lambda m, op, a: int(sx(a[0], m.xlen) < sx(a[1], m.xlen)),
    "riscv.sltu": lambda m, op, a: int((a[0] & mask(m.xlen)) < (a[1] & mask(m.xlen))),
    "riscv.mul": lambda m, op, a: a[0] * a[1],
    "riscv.mulh": lambda m, op, a: (sx(a[0], m.xlen) * sx(a[1], m.xlen)) >> m.xlen,
    "riscv.mulhsu": lambda m, op, a: (sx(a[0], m.xlen) * (a[1] & mask(m.xlen))) >> m.xlen,
    "riscv.mulhu": lambda m, op, a: ((a[0] & mask(m.xlen)) * (a[1] & mask(m.xlen))) >> m.xlen,
    "riscv.div": lambda m, op, a: _rv_div(a[0], a[1], m.xlen, True, False),
    "riscv.divu": lambda m, op, a: _rv_div(a[0], a[1], m.xlen, False, False),
    "riscv.rem": lambda m, op, a: _rv_div(a[0], a[1], m.xlen, True, True),
    "riscv.remu": lambda m, op, a: _rv_div(a[0], a[1], m.xlen, False, True),
    "riscv.addi": lambda m, op, a: a[0] + sx(_imm(op), 12),
    "riscv.andi": lambda m, op, a: a[0] & sx(_imm(op), 12),
    "riscv.ori": lambda m, op, a: a[0] | sx(_imm(op), 12),
    "riscv.xori": lambda m, op, a: a[0] ^ sx(_imm(op), 12),
    "riscv.slti": lambda m, op, a: int(sx(a[0], m.xlen) < sx(_imm(op), 12)),
    "riscv.sltiu": lambda m, op, a: int((a[0] & mask(m.xlen)) < (sx(_imm(op), 12) & mask(m.xlen))),
    "riscv.lui": lambda m, op, a: sx((_imm(op) & mask(20)) << 12, 32),
    "riscv.mv": lambda m, op, a: a[0],
    "riscv.seqz": lambda m, op, a: int((a[0] & mask(m.xlen)) == 0),
    "riscv.snez": lambda m, op, a: int((a[0] & mask(m.xlen)) != 0),
    "riscv.sext.b": lambda m, op, a: sx(a[0], 8),
    "riscv.sext.h": lambda m, op, a: sx(a[0], 16),
    "riscv.zext.b": lambda m, op, a: a[0] & 0xFF,
    "riscv.zext.h": lambda m, op, a: a[0] & 0xFFFF,
    "riscv.andn": lambda m, op, a: a[0] & ~a[1],
    "riscv.orn": lambda m, op, a: a[0] | ~a[1],
    "riscv.xnor": lambda m, op, a: ~(a[0] ^ a[1]),
    "riscv.max": lambda m, op, a: max(sx(a[0], m.xlen), sx(a[1], m.xlen)),
    "riscv.min": lambda m, op, a: min(sx(a[0], m.xlen), sx(a[1], m.xlen)),
    "riscv.maxu": lambda m, op, a: max(a[0] & mask(m.xlen), a[1] & mask(m.xlen)),
    "riscv.minu": lambda m, op, a: min(a[0] & mask(m.xlen), a[1] & mask(m.xlen)),
    "riscv.rol": lambda m, op, a: _rot(a[0], a[1], m.xlen, True),
    "riscv.ror": lambda m, op, a: _rot(a[0], a[1], m.xlen, False),
    "riscv.clz": lambda m, op, a: _clz(a[0], m.xlen),
    "riscv.ctz": lambda m, op, a: _ctz(a[0], m.xlen),
    "riscv.cpop": lambda m, op, a: bin(a[0] & mask(m.xlen)).count("1"),
    "riscv.sh1add": lambda m, op, a: (a[0] << 1) + a[1],
    "riscv.sh2add": lambda m, op, a: (a[0] << 2) + a[1],
    "riscv.sh3add": lambda m, op, a: (a[0] << 3) + a[1],
    "riscv.bclr": lambda m, op, a: a[0] & ~(1 << (a[1] & (m.xlen - 1))),
    "riscv.bset": lambda m, op, a: a[0] | (1 << (a[1] & (m.xlen - 1))),
    "riscv.binv": lambda m, op, a: a[0] ^ (1 << (a[1] & (m.xlen - 1))),
    "riscv.bext": lambda m, op, a: (a[0] & mask(m.xlen)) >> (a[1] & (m.xlen - 1)) & 1,
    "riscv.czero.eqz": lambda m, op, a: 0 if (a[1] & mask(m.xlen)) == 0 else a[0],
    "riscv.czero.nez": lambda m, op, a: 0 if (a[1] & mask(m.xlen)) != 0 else a[0],
    # immediate shifts (rv32.* need XLEN=32, rv64.* XLEN=64: checked by the machine)
    "rv32.slli": lambda m, op, a: a[0] << (_imm(op) & 31),
    "rv32.srli": lambda m, op, a: (a[0] & mask(32)) >> (_imm(op) & 31),
    "rv32.srai": lambda m, op, a: sx(a[0], 32) >> (_imm(op) & 31),
    "rv64.slli": lambda m, op, a: a[0] << (_imm(op) & 63),
    "rv64.srli": lambda m, op, a: (a[0] & mask(64)) >> (_imm(op) & 63),
    "rv64.srai": lambda m, op, a: sx(a[0], 64) >> (_imm(op) & 63),
    "rv32.li": lambda m, op, a: sx(_imm(op), 32),
    "rv64.li": lambda m, op, a: sx(_imm(op), 64),
    # RV64 word instructions
    "riscv.addw": lambda m, op, a: sx(a[0] + a[1], 32),
    "riscv.subw": lambda m, op, a: sx(a[0] - a[1], 32),
    "riscv.mulw": lambda m, op, a: sx(a[0] * a[1], 32),
    "riscv.sllw": lambda m, op, a: sx(a[0] << (a[1] & 31), 32),
    "riscv.srlw": lambda m, op, a: sx((a[0] & mask(32)) >> (a[1] & 31), 32),
    "riscv.sraw": lambda m, op, a: sx(a[0], 32) >> (a[1] & 31),
    "riscv.addiw": lambda m, op, a: sx(a[0] + sx(_imm(op), 12), 32),
    "riscv.sext.w": lambda m, op, a: sx(a[0], 32),
    "riscv.zext.w": lambda m, op, a: a[0] & mask(32),
    "riscv.divw": lambda m, op, a: sx(_rv_div(a[0], a[1], 32, True, False), 32),
    "riscv.divuw": lambda m, op, a: sx(_rv_div(a[0], a[1], 32, False, False), 32),
    "riscv.remw": lambda m, op, a: sx(_rv_div(a[0], a[1], 32, True, True), 32),
    "riscv.remuw": lambda m, op, a: sx(_rv_div(a[0], a[1], 32, False, True), 32),
}
RV64_ONLY = {"riscv.addw", "riscv.subw", "riscv.mulw", "riscv.sllw", "riscv.srlw", "riscv.sraw", "riscv.addiw",
             "riscv.sext.w", "riscv.zext.w", "riscv.divw", "riscv.divuw", "riscv.remw", "riscv.remuw",
             "rv64.slli", "rv64.srli", "rv64.srai", "rv64.li"}
RV32_ONLY = {"rv32.slli", "rv32.srli", "rv32.srai", "rv32.li"}


def _s(f):
    """single-precision op on NaN-boxed registers: f gets unboxed 32-bit encodings, returns a 32-bit encoding."""
    return lambda m, op, a: box_s(f([unbox_s(x) for x in a]))


def _sgnj_s(a, kind):
    x, y = unbox_s(a[0]), unbox_s(a[1])
    sb = 1 << 31
    s = {"j": y & sb, "jn": (~y) & sb, "jx": (x ^ y) & sb}[kind]
    return box_s((x & ~sb & mask(32)) | s)


def _neg_s(x):
    return x ^ (1 << 31)


def _neg_d(x):
    return x ^ (1 << 63)


def _lanes(x, n, w):
    return [(x >> (i * w)) & mask(w) for i in range(n)]


def _pack(ls, w):
    out = 0
    for i, l in enumerate(ls):
        out |= (l & mask(w)) << (i * w)
    return out


RV_FLOAT = {  # results are raw 64-bit register images (float results) or python ints (integer results)
    "riscv.fadd.s": _s(lambda a: fp_arith("add", a, False)),
    "riscv.fsub.s": _s(lambda a: fp_arith("sub", a, False)),
    "riscv.fmul.s": _s(lambda a: fp_arith("mul", a, False)),
    "riscv.fdiv.s": _s(lambda a: fp_arith("div", a, False)),
    "riscv.fsqrt.s": _s(lambda a: fp_sqrt(a[0], False)),
    "riscv.fmin.s": _s(lambda a: fp_minmax(a[0], a[1], False, False)),
    "riscv.fmax.s": _s(lambda a: fp_minmax(a[0], a[1], False, True)),
    "riscv.fmadd.s": _s(lambda a: fp_arith("fma", a, False)),
    "riscv.fmsub.s": _s(lambda a: fp_arith("fma", [a[0], a[1], _neg_s(a[2])], False)),
    "riscv.fnmsub.s": _s(lambda a: fp_arith("fma", [_neg_s(a[0]), a[1], a[2]], False)),
    "riscv.fnmadd.s": _s(lambda a: fp_arith("fma", [_neg_s(a[0]), a[1], _neg_s(a[2])], False)),
    "riscv.fsgnj.s": lambda m, op, a: _sgnj_s(a, "j"),
    "riscv.fsgnjn.s": lambda m, op, a: _sgnj_s(a, "jn"),
    "riscv.fsgnjx.s": lambda m, op, a: _sgnj_s(a, "jx"),
    "riscv.fmv.s": lambda m, op, a: _sgnj_s([a[0], a[0]], "j"),
    "riscv.fmv.d": lambda m, op, a: a[0],
    "riscv.fcvt.s.w": lambda m, op, a: box_s(fp_from_int(sx(a[0], 32), False)),
    "riscv.fcvt.s.wu": lambda m, op, a: box_s(fp_from_int(a[0] & mask(32), False)),
    "riscv.fcvt.w.s": lambda m, op, a: sx(fp_to_int(unbox_s(a[0]), False, True), 32),
    "riscv.fcvt.wu.s": lambda m, op, a: sx(fp_to_int(unbox_s(a[0]), False, False), 32),
    "riscv.fmv.x.w": lambda m, op, a: sx(a[0] & mask(32), 32),
    "riscv.fmv.w.x": lambda m, op, a: box_s(a[0]),
    "riscv.feq.s": lambda m, op, a: fp_cmp(unbox_s(a[0]), unbox_s(a[1]), False, "eq"),
    "riscv.flt.s": lambda m, op, a: fp_cmp(unbox_s(a[0]), unbox_s(a[1]), False, "lt"),
    "riscv.fle.s": lambda m, op, a: fp_cmp(unbox_s(a[0]), unbox_s(a[1]), False, "le"),
    "riscv.fclass.s": lambda m, op, a: fp_class(unbox_s(a[0]), False),
    "riscv.fadd.d": lambda m, op, a: fp_arith("add", a, True),
    "riscv.fsub.d": lambda m, op, a: fp_arith("sub", a, True),
    "riscv.fmul.d": lambda m, op, a: fp_arith("mul", a, True),
    "riscv.fdiv.d": lambda m, op, a: fp_arith("div", a, True),
    "riscv.fmin.d": lambda m, op, a: fp_minmax(a[0], a[1], True, False),
    "riscv.fmax.d": lambda m, op, a: fp_minmax(a[0], a[1], True, True),
    "riscv.fmadd.d": lambda m, op, a: fp_arith("fma", a, True),
    "riscv.fmsub.d": lambda m, op, a: fp_arith("fma", [a[0], a[1], _neg_d(a[2])], True),
    "riscv.fcvt.d.w": lambda m, op, a: fp_from_int(sx(a[0], 32), True),
    "riscv.fcvt.d.wu": lambda m, op, a: fp_from_int(a[0] & mask(32), True),
    # Snitch packed SIMD: two f32 lanes in a 64-bit float register
    "riscv.vfadd.s": lambda m, op, a: _pack([fp_arith("add", [x, y], False) for x, y in
                                              zip(_lanes(a[0], 2, 32), _lanes(a[1], 2, 32))], 32),
    "riscv.vfmul.s": lambda m, op, a: _pack([fp_arith("mul", [x, y], False) for x, y in
                                              zip(_lanes(a[0], 2, 32), _lanes(a[1], 2, 32))], 32),
    "riscv_snitch.vfadd.s": lambda m, op, a: _pack([fp_arith("add", [x, y], False) for x, y in
                                                     zip(_lanes(a[0], 2, 32), _lanes(a[1], 2, 32))], 32),
    "riscv_snitch.vfsub.s": lambda m, op, a: _pack([fp_arith("sub", [x, y], False) for x, y in
                                                     zip(_lanes(a[0], 2, 32), _lanes(a[1], 2, 32))], 32),
    "riscv_snitch.vfmul.s": lambda m, op, a: _pack([fp_arith("mul", [x, y], False) for x, y in
                                                     zip(_lanes(a[0], 2, 32), _lanes(a[1], 2, 32))], 32),
    "riscv_snitch.vfmax.s": lambda m, op, a: _pack([fp_minmax(x, y, False, True) for x, y in
                                                     zip(_lanes(a[0], 2, 32), _lanes(a[1], 2, 32))], 32),
    "riscv_snitch.vfcpka.s.s": lambda m, op, a: _pack([unbox_s(a[0]), unbox_s(a[1])], 32),
    # accumulating (in/out) ops: operands are (rd_in, rs1[, rs2])
    "riscv_snitch.vfmac.s": lambda m, op, a: _pack([fp_arith("fma", [x, y, z], False) for z, x, y in
                                                     zip(_lanes(a[0], 2, 32), _lanes(a[1], 2, 32),
                                                         _lanes(a[2], 2, 32))], 32),
    "riscv_snitch.vfsum.s": lambda m, op, a: _pack(
        [fp_arith("add", [fp_arith("add", [_lanes(a[1], 2, 32)[0], _lanes(a[1], 2, 32)[1]], False),
                          _lanes(a[0], 2, 32)[0]], False), _lanes(a[0], 2, 32)[1]], 32),
}

# (operand index, result index) pairs that the ISA ties to one register; the instruction WRITES THE OPERAND's
# register (that is the register the assembly printer emits)
TIED = {
    "riscv_snitch.vfmac.s": [(0, 0)],
    "riscv_snitch.vfsum.s": [(0, 0)],
    "x86.rs.add": [(0, 0)], "x86.rs.sub": [(0, 0)], "x86.rs.imul": [(0, 0)], "x86.rs.and": [(0, 0)],
    "x86.rs.or": [(0, 0)], "x86.rs.xor": [(0, 0)],
    "x86.r.neg": [(0, 0)], "x86.r.not": [(0, 0)], "x86.r.inc": [(0, 0)], "x86.r.dec": [(0, 0)],
    "x86.ri.add": [(0, 0)], "x86.ri.sub": [(0, 0)], "x86.ri.and": [(0, 0)], "x86.ri.or": [(0, 0)],
    "x86.ri.xor": [(0, 0)],
    "x86.rss.vfmadd231pd": [(0, 0)], "x86.rss.vfmadd231ps": [(0, 0)],
}


def tied_pairs(op):
    """[(operand value, result value)] the instruction requires in one register (own table; test.allocatable:
    its in/out segments)."""
    if op.name == "test.allocatable":
        osz = _segments(op, "operandSegmentSizes")
        rsz = _segments(op, "resultSegmentSizes")
        ops_ = list(op.operands)
        res = list(op.results)
        return list(zip(ops_[osz[0]:osz[0] + osz[1]], res[rsz[0]:rsz[0] + rsz[1]]))
    return [(op.operands[i], op.results[j]) for i, j in TIED.get(op.name, ())]


def _segments(op, key):
    a = op.attributes.get(key)
    if a is None:
        a = op.properties.get(key)
    return [int(x) for x in a.get_values()]


def _x86w(op):
    tn, _ = vinfo(op.results[0])
    return _TYPES[tn][1]


def _vec(f, lane_w):
    def g(m, op, a):
        w = _x86w(op)
        n = w // lane_w
        ls = [_lanes(x, n, lane_w) for x in a]
        return _pack([f(*xs) for xs in zip(*ls)], lane_w)
    return g


X86 = {
    "x86.rs.add": lambda m, op, a: a[0] + a[1],
    "x86.rs.sub": lambda m, op, a: a[0] - a[1],
    "x86.rs.imul": lambda m, op, a: sx(a[0], _x86w(op)) * sx(a[1], _x86w(op)),
    "x86.rs.and": lambda m, op, a: a[0] & a[1],
    "x86.rs.or": lambda m, op, a: a[0] | a[1],
    "x86.rs.xor": lambda m, op, a: a[0] ^ a[1],
    "x86.ds.mov": lambda m, op, a: a[0],
    "x86.r.neg": lambda m, op, a: -a[0],
    "x86.r.not": lambda m, op, a: ~a[0],
    "x86.r.inc": lambda m, op, a: a[0] + 1,
    "x86.r.dec": lambda m, op, a: a[0] - 1,
    "x86.ri.add": lambda m, op, a: a[0] + sx(_imm(op), 32),
    "x86.ri.sub": lambda m, op, a: a[0] - sx(_imm(op), 32),
    "x86.ri.and": lambda m, op, a: a[0] & sx(_imm(op), 32),
    "x86.ri.or": lambda m, op, a: a[0] | sx(_imm(op), 32),
    "x86.ri.xor": lambda m, op, a: a[0] ^ sx(_imm(op), 32),
    "x86.di.mov": lambda m, op, a: sx(_imm(op), 32),
    "x86.dsi.imul": lambda m, op, a: sx(a[0], _x86w(op)) * sx(_imm(op), 32),
    "x86.dss.vaddpd": _vec(lambda x, y: fp_arith("add", [x, y], True), 64),
    "x86.dss.vaddps": _vec(lambda x, y: fp_arith("add", [x, y], False), 32),
    "x86.dss.vxorpd": _vec(lambda x, y: x ^ y, 64),
    "x86.dss.vxorps": _vec(lambda x, y: x ^ y, 32),
    "x86.dss.vpxord": _vec(lambda x, y: x ^ y, 32),
    "x86.dss.vpxorq": _vec(lambda x, y: x ^ y, 64),
    "x86.rss.vfmadd231pd": _vec(lambda r, x, y: fp_arith("fma", [x, y, r], True), 64),
    "x86.rss.vfmadd231ps": _vec(lambda r, x, y: fp_arith("fma", [x, y, r], False), 32),
    "x86.ds.vmovapd": lambda m, op, a: a[0],
    "x86.ds.vmovaps": lambda m, op, a: a[0],
    "x86.ds.vpbroadcastq": lambda m, op, a: _pack([a[0] & mask(64)] * (_x86w(op) // 64), 64),
    "x86.ds.vpbroadcastd": lambda m, op, a: _pack([a[0] & mask(32)] * (_x86w(op) // 32), 32),
}

COPY_OPS = {"riscv.mv", "riscv.fmv.d", "x86.ds.mov", "x86.ds.vmovapd", "x86.ds.vmovaps"}
CONST_OPS = {"rv32.li", "rv64.li", "x86.di.mov"}
GET_REGISTER = {"rv32.get_register", "rv64.get_register", "riscv.get_float_register", "x86.get_register",
                "x86.get_avx_register"}
PARALLEL_MOV = {"riscv.parallel_mov", "x86.parallel_mov"}
RETURN_OPS = {"riscv_func.return", "x86_func.ret"}
YIELD_OPS = {"riscv_scf.yield", "riscv_snitch.frep_yield", "x86_scf.yield"}
RV_FOR = {"riscv_scf.for"}
X86_FOR = {"x86_scf.for"}
FREP = {"riscv_snitch.frep_outer", "riscv_snitch.frep_inner"}
NO_EFFECT = {"riscv.comment", "riscv.label", "riscv.nop", "x86.label"}
SIMPLE = {}
SIMPLE.update(RV_INT)
SIMPLE.update(RV_FLOAT)
SIMPLE.update(X86)


def supported(name: str) -> bool:
    return (name in SIMPLE or name in GET_REGISTER or name in PARALLEL_MOV or name in RETURN_OPS
            or name in YIELD_OPS or name in RV_FOR or name in X86_FOR or name in FREP or name in NO_EFFECT
            or name in ("test.allocatable", "x86.s.imul", "riscv.sw", "riscv.lw", "riscv.fsw", "riscv.flw", "riscv.fsd",
                        "riscv.fld", "riscv_scf.while", "riscv_scf.condition", "riscv_snitch.read",
                        "riscv_snitch.write", "test.op"))


def selftest():
    """Corner cases of the op table against the ISA manuals (run at the start of every shard)."""
    class M:
        xlen = 32
    m = M()
    t = RV_INT
    assert t["riscv.div"](m, None, [5, 0]) == -1 and t["riscv.divu"](m, None, [5, 0]) == mask(32)
    assert t["riscv.rem"](m, None, [5, 0]) == 5 and t["riscv.rem"](m, None, [-7, 2]) == -1
    assert t["riscv.div"](m, None, [1 << 31, mask(32)]) == -(1 << 31) and t["riscv.rem"](m, None, [1 << 31, -1]) == 0
    assert t["riscv.div"](m, None, [-7 & mask(32), 2]) == -3
    assert t["riscv.sra"](m, None, [1 << 31, 31]) == -1 and t["riscv.srl"](m, None, [1 << 31, 31 + 32]) == 1
    assert t["riscv.sltu"](m, None, [1, mask(32)]) == 1 and t["riscv.slt"](m, None, [1, mask(32)]) == 0
    assert t["riscv.mulh"](m, None, [mask(32), mask(32)]) == 0 and t["riscv.mulhu"](m, None, [mask(32), mask(32)]) == mask(32) - 1
    assert t["riscv.clz"](m, None, [1]) == 31 and t["riscv.ctz"](m, None, [0]) == 32 and t["riscv.cpop"](m, None, [255]) == 8
    assert t["riscv.rol"](m, None, [0x80000001, 1]) == 3 and t["riscv.ror"](m, None, [3, 1]) == 0x80000001
    m.xlen = 64
    assert t["riscv.addw"](m, None, [0x7FFFFFFF, 1]) == -(1 << 31)
    assert t["riscv.srlw"](m, None, [0xFFFFFFFF00000000 | 0x80000000, 31]) == 1
    one, two, three = 0x3F800000, 0x40000000, 0x40400000
    assert fp_arith("add", [one, two], False) == three and fp_arith("mul", [two, three], False) == 0x40C00000
    assert fp_arith("div", [one, three], False) == 0x3EAAAAAB
    assert fp_arith("sub", [one, one], False) == 0 and fp_arith("add", [1 << 31, 1 << 31], False) == 1 << 31
    assert fp_arith("div", [one, 0], False) == 0x7F800000 and fp_arith("div", [0, 0], False) == CANON_S
    assert fp_arith("mul", [0x7F800000, 0], False) == CANON_S
    assert fp_arith("add", [0x7F7FFFFF, 0x7F7FFFFF], False) == 0x7F800000  # overflow -> inf
    assert fp_arith("mul", [0x00800000, 0x3F000000], False) == 0x00400000  # normal -> subnormal
    assert fp_arith("fma", [three, three, _neg_s(0x41100000)], False) == 0  # 3*3-9
    assert fp_arith("add", [f2d(0.1), f2d(0.2)], True) == f2d(0.1 + 0.2)
    assert fp_arith("mul", [f2d(1e200), f2d(1e200)], True) == f2d(float("inf"))
    assert fp_arith("div", [f2d(1.0), f2d(3.0)], True) == f2d(1.0 / 3.0)
    assert fp_sqrt(0x40800000, False) == two and fp_sqrt(two, False) == 0x3FB504F3 and fp_sqrt(f2d(2.0), True) == f2d(2.0 ** 0.5)
    assert fp_sqrt(_neg_s(one), False) == CANON_S and fp_sqrt(1 << 31, False) == 1 << 31
    assert fp_minmax(0, 1 << 31, False, False) == 1 << 31 and fp_minmax(CANON_S, one, False, True) == one
    assert fp_cmp(0, 1 << 31, False, "eq") == 1 and fp_cmp(CANON_S, one, False, "le") == 0 and fp_cmp(one, two, False, "lt") == 1
    assert fp_from_int(16777217, False) == 0x4B800000 and fp_from_int(-1, False) == 0xBF800000
    assert fp_to_int(0x7F800000, False, True) == (1 << 31) - 1 and fp_to_int(CANON_S, False, False) == mask(32)
    assert fp_to_int(0x40200000, False, True) == 2 and fp_to_int(0x40600000, False, True) == 4  # 2.5 -> 2, 3.5 -> 4 (RNE)
    assert fp_to_int(0xBF800000, False, False) == 0
    assert fp_class(0xFF800000, False) == 1 and fp_class(0, False) == 16 and fp_class(CANON_S, False) == 512
    assert unbox_s(0x3F800000) == CANON_S and unbox_s(box_s(one)) == one
    assert phys("riscv.reg", "s1") == phys("riscv.reg", "x9") and phys("riscv.reg", "fp") == phys("riscv.reg", "s0")
    assert phys("x86.reg32", "ebx") == phys("x86.reg64", "rbx") == phys("x86.reg8", "bl") == phys("x86.reg16", "bx")
    assert phys("x86.avx2reg", "ymm3") == phys("x86.avx512reg", "zmm3") == phys("x86.ssereg", "xmm3")
    assert phys("riscv.reg", "j_3") == ("rv.x.inf", 3) and phys("x86.reg32", "inf_reg32_2") == phys("x86.reg64", "inf_reg_2")
    assert phys("riscv.reg", "") is None and phys("riscv.reg", "zero") == ZERO != phys("riscv.freg", "ft0")
    return True


# ------------------------------------------------------------------------------------------ the machine
class Machine:
    """One execution of one function.  mode 'ssa' | 'reg'; semantics 'isa' | 'mix'."""

    def __init__(self, mode: str, xlen: int = 32, semantics: str = "isa", garbage_seed: int = 0,
                 fuel: int = 40000, stream_seed: int = 0, zero_rule: bool = True):
        self.zero_rule = zero_rule  # ssa mode: a value typed `zero` reads as 0 (False: pure dataflow, types ignored)
        assert mode in ("ssa", "reg") and semantics in ("isa", "mix") and xlen in (32, 64)
        self.mode, self.xlen, self.sem = mode, xlen, semantics
        self.gseed = garbage_seed
        self.fuel = fuel
        self.env = {}       # ssa: id(value) -> int
        self.keep = []      # strong refs for id() keys
        self.regs = {}      # reg: physical cell -> int (container width)
        self.mem = {}
        self.log = []       # observable effects in order
        self.stream_seed = stream_seed
        self.stream_pos = {}
        self.steps = 0

    # -- registers
    def _container(self, p):
        return {"rv.x": self.xlen, "rv.x.inf": self.xlen, "rv.f": 64, "rv.f.inf": 64, "x86.gpr": 64,
                "x86.gpr.inf": 64, "x86.vec": 512, "x86.vec.inf": 512, "x86.k": 64, "x86.k.inf": 64,
                "x86.flags": 64, "x86.flags.inf": 64}[p[0]]

    def initial(self, p):
        """Content of a physical register at function entry (deterministic garbage)."""
        if p == ZERO:
            return 0
        w = self._container(p)
        out = 0
        for i in range((w + 63) // 64):
            out |= H("init", self.gseed, p, i) << (64 * i)
        return out & mask(w)

    def set_initial(self, p, x):
        self.regs[p] = x & mask(self._container(p))

    def reg_read(self, p, w):
        if p == ZERO:
            return 0
        if p not in self.regs:
            self.regs[p] = self.initial(p)
        return self.regs[p] & mask(w)

    def reg_write(self, p, w, x):
        if p == ZERO:
            return
        cw = self._container(p)
        x &= mask(w)
        if p[0].startswith("x86.gpr") and w in (8, 16):
            old = self.reg_read(p, cw)
            self.regs[p] = (old & ~mask(w)) | x
        else:  # full write, 32-bit GPR write and VEX vector write zero-extend
            self.regs[p] = x & mask(cw)

    # -- values
    def width(self, v):
        return type_width(v.type.name, self.xlen)

    def read(self, v):
        if self.mode == "ssa":
            try:
                return self.env[id(v)]
            except KeyError:
                raise MachineError("read-of-undefined-value", str(v.name_hint))
        tn, rn = vinfo(v)
        p = phys(tn, rn)
        if p is None:
            raise MachineError("unallocated-value-in-register-mode", str(v.name_hint))
        return self.reg_read(p, type_width(tn, self.xlen))

    def write(self, v, x, at=None):
        """at: value whose register is written instead of v's (tied in/out instructions)."""
        w = self.width(v)
        if self.mode == "ssa":
            if id(v) not in self.env:
                self.keep.append(v)
            tn, rn = vinfo(v)
            # a value typed `zero` before allocation is x0: it reads as 0 whatever is written
            self.env[id(v)] = 0 if (self.zero_rule and rn and phys(tn, rn) == ZERO) else x & mask(w)
            return
        tn, rn = vinfo(at if at is not None else v)
        p = phys(tn, rn)
        if p is None:
            raise MachineError("unallocated-value-in-register-mode", str(v.name_hint))
        self.reg_write(p, w, x)

    # -- running
    def tick(self):
        self.steps += 1
        if self.steps > self.fuel:
            raise MachineError("fuel-exhausted", "")

    def run_func(self, func, args):
        """args: values for the entry block arguments (pre-allocated ABI registers).  Returns
        {'ret': [...], 'log': [...]}."""
        block = func.body.blocks[0] if hasattr(func.body, "blocks") else func.body.block
        if len(args) != len(block.args):
            raise MachineError("arity", "")
        for a, x in zip(block.args, args):
            w = self.width(a)
            if self.mode == "ssa":
                self.keep.append(a)
                self.env[id(a)] = x & mask(w)
            else:
                p = vphys(a)
                if p is None:
                    raise MachineError("unallocated-value-in-register-mode", "function argument")
                self.reg_write(p, w, x)
        r = self.run_block(block)
        if r is None or r[0] != "return":
            raise MachineError("no-return", "")
        return {"ret": r[1], "log": self.log}

    def run_block(self, block):
        """Execute ops until a terminator: returns (kind, operand values, terminator op)."""
        for op in block.ops:
            self.tick()
            n = op.name
            if n in RETURN_OPS:
                return ("return", [self.read(o) for o in op.operands], op)
            if n in YIELD_OPS:
                return ("yield", None, op)
            if n == "riscv_scf.condition":
                return ("condition", None, op)
            self.exec_op(op)
        return None

    def exec_op(self, op):
        n = op.name
        if n in SIMPLE:
            if n in RV64_ONLY and self.xlen != 64 or n in RV32_ONLY and self.xlen != 32:
                raise MachineError("illegal-instruction-for-xlen", n)
            ins = [self.read(o) for o in op.operands]
            if self.sem == "isa" or n in COPY_OPS or n in CONST_OPS:
                out = SIMPLE[n](self, op, ins)
            else:
                out = H(n, self._immkey(op), tuple(ins))
                if len(op.results) and self.width(op.results[0]) > 64:
                    w = self.width(op.results[0])
                    out = _pack([H(n, i, out) for i in range(w // 64)], 64)
            tied = {j: i for i, j in TIED.get(n, ())}
            r = op.results[0]
            self.write(r, out, at=op.operands[tied[0]] if 0 in tied else None)
        elif n == "x86.s.imul":
            src, rax = self.read(op.operands[0]), self.read(op.operands[1])
            if self.sem == "isa":
                prod = sx(src, 64) * sx(rax, 64)
                hi, lo = (prod >> 64) & mask(64), prod & mask(64)
            else:
                hi, lo = H(n, "hi", src, rax), H(n, "lo", src, rax)
            self.write(op.results[0], hi)
            self.write(op.results[1], lo)
        elif n in GET_REGISTER:
            r = op.results[0]
            if self.mode == "ssa":
                p = vphys(r)
                if p is None:
                    raise MachineError("get-register-unallocated", n)
                self.write(r, self.initial(p) if p not in self.regs else self.regs[p])
            # register mode: the op emits nothing, the value is whatever the register holds
        elif n in PARALLEL_MOV:
            ins = [self.read(o) for o in op.operands]
            for r, x in zip(op.results, ins):
                self.write(r, x)
        elif n == "test.allocatable":
            ins = [self.read(o) for o in op.operands]
            if not op.results:
                self.log.append(("observe", tuple(ins)))
                return
            osz = _segments(op, "operandSegmentSizes")
            rsz = _segments(op, "resultSegmentSizes")
            ops_ = list(op.operands)
            for k, r in enumerate(op.results):
                w = self.width(r)
                x = _pack([H("test.allocatable", k, i, tuple(ins)) for i in range((w + 63) // 64)], 64)
                at = None
                if k >= rsz[0]:
                    at = ops_[osz[0] + (k - rsz[0])]
                self.write(r, x, at=at)
        elif n in ("riscv.sw", "riscv.fsw", "riscv.fsd"):
            base, val = self.read(op.operands[0]), self.read(op.operands[1])
            addr = (base + sx(_imm(op), 12)) & mask(self.xlen)
            wbits = {"riscv.sw": 32, "riscv.fsw": 32, "riscv.fsd": 64}[n]
            self.mem[addr] = val & mask(wbits)
            self.log.append((n, addr, val & mask(wbits)))
        elif n in ("riscv.lw", "riscv.flw", "riscv.fld"):
            base = self.read(op.operands[0])
            addr = (base + sx(_imm(op), 12)) & mask(self.xlen)
            wbits = {"riscv.lw": 32, "riscv.flw": 32, "riscv.fld": 64}[n]
            raw = self.mem.get(addr, H("mem", addr)) & mask(wbits)
            x = sx(raw, 32) if n == "riscv.lw" else (box_s(raw) if n == "riscv.flw" else raw)
            self.write(op.results[0], x)
        elif n == "riscv_snitch.read":
            key = id(op.operands[0])
            if key not in self.stream_pos:
                self.keep.append(op.operands[0])
                self.stream_pos[key] = [len(self.stream_pos), 0]
            ent = self.stream_pos[key]
            ent[1] += 1
            self.write(op.results[0], H("stream", self.stream_seed, ent[0], ent[1]))
        elif n == "riscv_snitch.write":
            self.log.append(("stream-write", self.read(op.operands[0])))
        elif n == "test.op":
            if any(is_reg_type(r.type.name) for r in op.results) or any(is_reg_type(o.type.name) for o in op.operands):
                raise MachineError("unsupported-op", "test.op with register values")
        elif n in RV_FOR:
            self.exec_rv_for(op)
        elif n in X86_FOR:
            self.exec_x86_for(op)
        elif n in FREP:
            self.exec_frep(op)
        elif n == "riscv_scf.while":
            self.exec_while(op)
        elif n in NO_EFFECT:
            pass
        else:
            raise MachineError("unsupported-op", n)

    def _immkey(self, op):
        a = op.attributes.get("immediate")
        try:
            return None if a is None else a.value.data
        except AttributeError:
            return str(a)

    # -- structured control flow
    @staticmethod
    def _named(op, name):
        """Operand group by ODS name (the loop ops have optional/variadic operands)."""
        return getattr(op, name)

    def _static(self, op, prop):
        a = op.properties.get(prop)
        return None if a is None else a.value.data

    def exec_rv_for(self, op):
        """mv iv, lb ; bge iv, ub, end ; body ; add(i) iv, iv, step ; blt iv, ub, body ; end"""
        w = self.xlen
        body = op.body.block
        iv, carried_args = body.args[0], list(body.args[1:])
        lb, ub, step_val = op.lb, op.ub, op.step_val
        step_imm = self._static(op, "step_attr")
        inits = list(op.iter_args)
        if self.mode == "ssa":
            i = self.read(lb)
            carried = [self.read(x) for x in inits]
            while sx(i, w) < sx(self.read(ub), w):
                self.tick()
                self.write(iv, i)
                for a, x in zip(carried_args, carried):
                    self.write(a, x)
                r = self.run_block(body)
                if r is None or r[0] != "yield":
                    raise MachineError("bad-terminator", op.name)
                carried = [self.read(y) for y in r[2].operands]
                st = sx(step_imm, 12) if step_val is None else self.read(step_val)
                i = (self.read(iv) + st) & mask(w)
            for res, x in zip(op.results, carried):
                self.write(res, x)
        else:
            self.write(iv, self.read(lb))
            while sx(self.read(iv), w) < sx(self.read(ub), w):
                self.tick()
                r = self.run_block(body)
                if r is None or r[0] != "yield":
                    raise MachineError("bad-terminator", op.name)
                st = sx(step_imm, 12) if step_val is None else self.read(step_val)
                self.write(iv, self.read(iv) + st)

    def exec_x86_for(self, op):
        """cmp lb, ub ; jge end ; body ; add iv, step ; cmp iv, ub ; jl body ; end   (iv lives in lb's register)"""
        body = op.body.block
        iv, carried_args = body.args[0], list(body.args[1:])
        w = self.width(iv)
        lb, ub_val, step_val = op.lb, op.ub_val, op.step_val
        ub_imm, step_imm = self._static(op, "ub_attr"), self._static(op, "step_attr")
        inits = list(op.iter_args)
        getub = lambda: sx(ub_imm, 32) if ub_val is None else sx(self.read(ub_val), w)
        getstep = lambda: sx(step_imm, 32) if step_val is None else self.read(step_val)
        lb_end, results = op.results[0], list(op.results[1:])
        if self.mode == "ssa":
            i = self.read(lb)
            carried = [self.read(x) for x in inits]
            while sx(i, w) < getub():
                self.tick()
                self.write(iv, i)
                for a, x in zip(carried_args, carried):
                    self.write(a, x)
                r = self.run_block(body)
                if r is None or r[0] != "yield":
                    raise MachineError("bad-terminator", op.name)
                carried = [self.read(y) for y in r[2].operands]
                i = (self.read(iv) + getstep()) & mask(w)
            self.write(lb_end, i)
            for res, x in zip(results, carried):
                self.write(res, x)
        else:
            # first comparison reads lb's register, the body and the back edge read the block argument's
            first = True
            while sx(self.read(lb if first else iv), w) < getub():
                first = False
                self.tick()
                r = self.run_block(body)
                if r is None or r[0] != "yield":
                    raise MachineError("bad-terminator", op.name)
                self.write(iv, self.read(iv) + getstep())

    def exec_frep(self, op):
        body = op.body.block
        n = (self.read(op.max_rep) & mask(self.xlen)) + 1
        inits = list(op.iter_args)
        if self.mode == "ssa":
            carried = [self.read(x) for x in inits]
            for _ in range(n):
                self.tick()
                for a, x in zip(body.args, carried):
                    self.write(a, x)
                r = self.run_block(body)
                if r is None or r[0] != "yield":
                    raise MachineError("bad-terminator", op.name)
                carried = [self.read(y) for y in r[2].operands]
            for res, x in zip(op.results, carried):
                self.write(res, x)
        else:
            for _ in range(n):
                self.tick()
                r = self.run_block(body)
                if r is None or r[0] != "yield":
                    raise MachineError("bad-terminator", op.name)

    def exec_while(self, op):
        """SSA semantics only (there is no register-level lowering of riscv_scf.while in xDSL)."""
        if self.mode != "ssa":
            raise MachineError("unsupported-op", "riscv_scf.while in register mode")
        before, after = op.before_region.block, op.after_region.block
        vals = [self.read(x) for x in op.operands]
        while True:
            self.tick()
            for a, x in zip(before.args, vals):
                self.write(a, x)
            r = self.run_block(before)
            if r is None or r[0] != "condition":
                raise MachineError("bad-terminator", op.name)
            c = r[2]
            cond = self.read(c.operands[0])
            fwd = [self.read(x) for x in list(c.operands)[1:]]
            if cond & mask(self.xlen) == 0:
                for res, x in zip(op.results, fwd):
                    self.write(res, x)
                return
            for a, x in zip(after.args, fwd):
                self.write(a, x)
            r = self.run_block(after)
            if r is None or r[0] != "yield":
                raise MachineError("bad-terminator", op.name)
            vals = [self.read(y) for y in r[2].operands]
