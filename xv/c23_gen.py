"""C23 generator: llvm-dialect programs as (MLIR text, reference structure, expected LLVM instruction facts).

Everything derives from a `random.Random`; a program is a `Module` of `Func`s made of `Blk`s of `Op`s.  The
same `Op` carries (a) the custom-syntax text given to the xDSL parser, (b) the fields `xv.c23_ref.Machine`
interprets and (c) `expect`: what the emitted LLVM instruction must look like (opcode, predicate, flags,
alignment, callee, ...), checked by the structural monitor of the check.
"""
from __future__ import annotations

from xv.c23_ref import (ArrT, F16, F32, F64, FloatT, I1, I8, I16, I32, I64, IntT, NANY, PTR, PtrT, StructT, T, UNDEF,
                        VecT, layout, struct_offsets, zero_of, undef_of, U, S)

SIG_INTS = [I1, I8, I16, I32, I64]
ODD_INTS = [IntT(w) for w in (2, 3, 7, 13, 24, 33, 48, 63)]
ALL_INTS = SIG_INTS + ODD_INTS
FLOATS = [F32, F64]
V4F32, V2F64, V4I32, V2I64, V8I16 = VecT(4, F32), VecT(2, F64), VecT(4, I32), VecT(2, I64), VecT(8, I16)
VECS = [V4F32, V2F64, V4I32, V2I64, V8I16]

INT_BIN = ["add", "sub", "mul", "udiv", "sdiv", "urem", "srem", "shl", "lshr", "ashr", "and", "or", "xor"]
FLOAT_BIN = ["fadd", "fsub", "fmul", "fdiv", "frem"]
ICMP_PREDS = ["eq", "ne", "slt", "sle", "sgt", "sge", "ult", "ule", "ugt", "uge"]
FCMP_PREDS = ["oeq", "ogt", "oge", "olt", "ole", "one", "ord", "ueq", "ugt", "uge", "ult", "ule", "une", "uno"]
UN_INTR = ["fabs", "exp", "ceil", "sin", "floor", "exp2", "sqrt", "log", "cos", "log2"]
BIN_INTR = ["pow", "maxnum", "minnum", "copysign"]
FM_SAFE = ["nnan", "ninf"]
FM_ALL = ["nnan", "ninf", "nsz", "arcp", "contract", "afn", "reassoc", "fast"]
INT_INTRINSICS = ["smax", "smin", "umax", "umin", "abs", "ctpop", "ctlz", "cttz", "bswap", "bitreverse", "fshl", "fshr",
                  "sadd.sat", "ssub.sat", "uadd.sat", "usub.sat", "sadd.with.overflow", "uadd.with.overflow",
                  "ssub.with.overflow", "usub.with.overflow", "smul.with.overflow", "umul.with.overflow", "expect"]
FLOAT_INTRINSICS = ["fma", "fabs", "floor", "ceil", "trunc", "rint", "roundeven", "round", "sqrt", "copysign",
                    "minimum", "maximum"]
CCONVS = ["ccc", "fastcc", "coldcc"]


class Op:
    __slots__ = ("k", "res", "ty", "a", "attrs", "text", "expect")

    def __init__(self, k, res, ty, a, attrs, text, expect=None):
        self.k, self.res, self.ty, self.a, self.attrs, self.text, self.expect = k, res, ty, a, attrs, text, expect


class Blk:
    def __init__(self, label, args=()):
        self.label = label
        self.args = list(args)
        self.ops = []
        self.term = None


class Func:
    def __init__(self, name, args, ret, cconv="ccc", linkage="", variadic=False):
        self.name, self.args, self.ret = name, list(args), ret
        self.cconv, self.linkage, self.variadic = cconv, linkage, variadic
        self.blocks = []
        self.block_by_label = {}
        self.entry_label = None
        self.profile = ""

    def sym(self):
        return sym_text(self.name)

    def text(self):
        head = "llvm.func " + (self.linkage + " " if self.linkage else "") + (self.cconv + " " if self.cconv != "ccc" else "")
        if self.blocks is None:
            ps = ", ".join(t.mlir for _n, t in self.args) + (", ..." if self.variadic else "")
            return f"  {head}{self.sym()}({ps})" + (f" -> {self.ret.mlir}" if self.ret else "")
        ps = ", ".join(f"{n}: {t.mlir}" for n, t in self.args) + (", ..." if self.variadic else "")
        out = [f"  {head}{self.sym()}({ps})" + (f" -> {self.ret.mlir}" if self.ret else "") + " {"]
        for i, b in enumerate(self.blocks):
            if i or self.entry_label:
                if i == 0:
                    out.append(f"  ^{b.label}:")
                else:
                    a = "(" + ", ".join(f"{n}: {t.mlir}" for n, t in b.args) + ")" if b.args else ""
                    out.append(f"  ^{b.label}{a}:")
            for op in b.ops:
                out.append("    " + op.text)
            out.append("    " + b.term.text)
        out.append("  }")
        return "\n".join(out)

    @property
    def is_entry(self):
        ok = lambda t: t in SIG_INTS or t in FLOATS
        return self.blocks is not None and all(ok(t) for _n, t in self.args) and (self.ret is None or ok(self.ret)) \
            and not self.variadic and len(self.args) <= 6


class GlobalDef:
    def __init__(self, name, ty, init, const=False, linkage="internal", align=None, text_value=None):
        self.name, self.ty, self.init, self.const, self.linkage, self.align = name, ty, init, const, linkage, align
        self.text_value = text_value

    def text(self):
        attrs = f" {{alignment = {self.align} : i64}}" if self.align else ""
        return (f"  llvm.mlir.global {self.linkage} " + ("constant " if self.const else "") +
                f"{sym_text(self.name)}({self.text_value or ''}){attrs} : {self.ty.mlir}")


class Module:
    def __init__(self):
        self.globals = []
        self.funcs = []
        self.profile = ""

    def text(self):
        return "builtin.module {\n" + "\n".join([g.text() for g in self.globals] + [f.text() for f in self.funcs]) + "\n}\n"


def sym_text(name):
    import re
    if re.fullmatch(r"[A-Za-z_][A-Za-z0-9_$.]*", name):
        return "@" + name
    return '@"' + name.replace("\\", "\\\\").replace('"', '\\"') + '"'


# ------------------------------------------------------------------------------------------ literal helpers
def int_boundaries(w):
    m = (1 << w) - 1
    return sorted({0, 1, 2 & m, 3 & m, 7 & m, m, m - 1 if w > 1 else 0, 1 << (w - 1), (1 << (w - 1)) - 1 if w > 1 else 0,
                   (w - 1) & m, w & m, (w + 1) & m, 0x55555555555555555555 & m, 0xAAAAAAAAAAAAAAAAAAAA & m})


def rand_int(rng, w):
    r = rng.random()
    if r < 0.45:
        return rng.choice(int_boundaries(w))
    if r < 0.7:
        return rng.randrange(0, min(1 << w, 16))
    if r < 0.8:
        return U(-rng.randrange(1, 16), w)
    return rng.getrandbits(w)


_F_SPECIAL = {
    32: [0x00000000, 0x80000000, 0x3F800000, 0xBF800000, 0x7F800000, 0xFF800000, 0x7FC00000, 0xFFC00001, 0x7FA00000,
         0x00000001, 0x80000001, 0x007FFFFF, 0x00800000, 0x7F7FFFFF, 0xFF7FFFFF, 0x3F000000, 0x40000000, 0x40490FDB,
         0x4B000000, 0x4B000001, 0x3FC00000, 0x40200000, 0xC0200000, 0x5F000000, 0x33800000],
    64: [0x0000000000000000, 0x8000000000000000, 0x3FF0000000000000, 0xBFF0000000000000, 0x7FF0000000000000,
         0xFFF0000000000000, 0x7FF8000000000000, 0xFFF8000000000001, 0x7FF4000000000000, 0x0000000000000001,
         0x000FFFFFFFFFFFFF, 0x0010000000000000, 0x7FEFFFFFFFFFFFFF, 0x3FE0000000000000, 0x4000000000000000,
         0x400921FB54442D18, 0x4330000000000000, 0x4330000000000001, 0x3FF8000000000000, 0x4004000000000000,
         0xC004000000000000, 0x43E0000000000000, 0x3CB0000000000000],
    16: [0x0000, 0x8000, 0x3C00, 0xBC00, 0x7C00, 0xFC00, 0x7E00, 0x7D00, 0x0001, 0x03FF, 0x0400, 0x7BFF, 0x3800, 0x4000],
}


def rand_float_bits(rng, w):
    r = rng.random()
    if r < 0.4:
        return rng.choice(_F_SPECIAL[w])
    if r < 0.75:
        from xv.c23_ref import from_py
        v = rng.choice([rng.randrange(-20, 20), rng.randrange(-1000, 1000) / 8.0, rng.uniform(-4, 4), rng.uniform(-1e6, 1e6)])
        return from_py(float(v), w) if w != 16 else rng.choice(_F_SPECIAL[16])
    return rng.getrandbits(w)


def rand_finite_float_bits(rng, w):
    from xv.c23_ref import f_is_nan, f_is_inf
    while True:
        b = rand_float_bits(rng, w)
        if not f_is_nan(b, w) and not f_is_inf(b, w):
            return b


def const_float_bits(rng, w):
    """Bits for a float *constant*: xDSL keeps FloatAttr payloads as python floats (doubles), so a signalling NaN
    narrower than f64 is quieted by the attribute itself (not by the backend): constants avoid narrow sNaNs."""
    from xv.c23_ref import f_is_snan, FMT
    b = rand_float_bits(rng, w)
    if w < 64 and f_is_snan(b, w):
        b |= 1 << (FMT[w][1] - 1)
    return b


def int_lit(v, w):
    """Text of an integer literal for the bit pattern v of width w (signless attr accepts [-2^(w-1), 2^w))."""
    return str(v)


def float_lit(bits, w):
    from xv.c23_ref import to_py, f_is_nan, f_is_inf
    if f_is_nan(bits, w) or f_is_inf(bits, w) or w == 16:
        return "0x" + format(bits, f"0{w // 4}X")
    x = to_py(bits, w)
    s = repr(x)
    if "e" in s or "E" in s:
        if "." not in s.split("e")[0]:
            m, e = s.split("e")
            s = m + ".0e" + e
    # round-trip safety: decimal repr of the double is exact for f64, and for f32 re-rounds to the same float
    return s


def const_text(v, t):
    """Attribute text (value : type) of a constant of type t with reference value v."""
    if isinstance(t, IntT):
        return f"{int_lit(v, t.w)} : {t.mlir}"
    if isinstance(t, FloatT):
        return f"{float_lit(v, t.w)} : {t.mlir}"
    if isinstance(t, VecT):
        if isinstance(t.e, IntT):
            if t.e.w == 1:
                body = ", ".join("true" if x else "false" for x in v)
            else:
                body = ", ".join(int_lit(x, t.e.w) for x in v)
        else:
            body = ", ".join(float_lit(x, t.e.w) for x in v)
        if len(set(v)) == 1 and not (isinstance(t.e, FloatT)):
            return f"dense<{body.split(', ')[0]}> : {t.mlir}"
        return f"dense<[{body}]> : {t.mlir}"
    raise TypeError(t)


# ------------------------------------------------------------------------------------------ the builder
class FB:
    """Function builder with a dominance-correct value pool (scope stack)."""

    def __init__(self, mg, name, args, ret, cconv="ccc", linkage=""):
        self.mg = mg
        self.rng = mg.rng
        self.f = Func(name, args, ret, cconv, linkage)
        self.nv = 0
        self.nb = 0
        self.scopes = [list(args)]
        self.cur = self.new_block(entry=True)
        self.alloca_scopes = [[]]
        self.accs = [None]  # running checksum (an i64 value) per dominance scope: keeps intermediate values observable

    # ---- plumbing
    def v(self):
        self.nv += 1
        return f"%v{self.nv}"

    def new_block(self, args=(), entry=False, hint=None):
        self.nb += 1
        label = hint or f"bb{self.nb}"
        if label in self.f.block_by_label:
            label = f"{label}_{self.nb}"
        b = Blk(label, args)
        self.f.blocks.append(b)
        self.f.block_by_label[label] = b
        return b

    def push(self):
        self.scopes.append([])
        self.alloca_scopes.append([])
        self.accs.append(self.accs[-1])

    def pop(self):
        self.scopes.pop()
        self.alloca_scopes.pop()
        self.accs.pop()

    def foldable(self, t):
        return (isinstance(t, IntT) and t.w <= 128) or (isinstance(t, FloatT) and t.w in (32, 64)) or \
            (isinstance(t, VecT) and t.e.bits >= 8 and t.bits <= 256)

    def fold(self, vals):
        """acc = acc (xor|add) value-as-i64 for each (name, type)."""
        for n, t in vals:
            if not self.foldable(t):
                continue
            v = self.to_type(n, t, I64)
            if self.accs[-1] is None:
                self.accs[-1] = v
            else:
                self.accs[-1] = self.raw_bin(self.rng.choice(["xor", "add", "sub"]), I64, self.accs[-1], v, ())
                self.scopes[-1].pop()

    def avail(self, pred):
        return [(n, t) for sc in self.scopes for (n, t) in sc if pred(t)]

    def add(self, name, t):
        self.scopes[-1].append((name, t))

    def emit(self, k, ty, a, attrs, text, expect=None, pool=True):
        res = self.v() if ty is not None else None
        if res:
            text = f"{res} = {text}"
        op = Op(k, res, ty, list(a), attrs, text, expect)
        self.cur.ops.append(op)
        if res and pool:
            self.add(res, ty)
        self.mg.count(k, attrs)
        return res

    # ---- constants and picks
    def const(self, t, v=None, pool=True):
        rng = self.rng
        if isinstance(t, IntT):
            if v is None:
                v = rand_int(rng, t.w)
            if t.w == 1 and rng.random() < 0.5:
                txt = f"llvm.mlir.constant({'true' if v else 'false'}) : i1"
            else:
                lit = v if (rng.random() < 0.6 or t.w == 1) else (S(v, t.w) if rng.random() < 0.7 else v)
                txt = f"llvm.mlir.constant({lit} : {t.mlir}) : {t.mlir}"
            return self.emit("const", t, [], {"val": v}, txt, pool=pool)
        if isinstance(t, FloatT):
            if v is None:
                v = const_float_bits(rng, t.w)
            return self.emit("const", t, [], {"val": v}, f"llvm.mlir.constant({const_text(v, t)}) : {t.mlir}", pool=pool)
        if isinstance(t, VecT):
            if v is None:
                if isinstance(t.e, IntT):
                    v = tuple(rand_int(rng, t.e.w) for _ in range(t.n)) if rng.random() < 0.8 else (rand_int(rng, t.e.w),) * t.n
                else:
                    # finite elements only: xDSL's parser reads a hex literal inside dense<[...]> of floats as an
                    # integer value (a parser defect owned by C04/C06), so NaN/inf lanes are built with insertelement
                    v = tuple(rand_finite_float_bits(rng, t.e.w) for _ in range(t.n))
            return self.emit("const", t, [], {"val": v}, f"llvm.mlir.constant({const_text(v, t)}) : {t.mlir}", pool=pool)
        if isinstance(t, PtrT):
            return self.emit("zero", t, [], {}, f"llvm.mlir.zero : {t.mlir}", pool=pool)
        if isinstance(t, (StructT, ArrT)):
            return self.build_aggregate(t)
        raise TypeError(t)

    def pick(self, t, fresh=0.12):
        c = self.avail(lambda x: x == t)
        if c and self.rng.random() > fresh:
            # bias to recent values
            if self.rng.random() < 0.5:
                return c[-self.rng.randint(1, min(4, len(c)))][0]
            return self.rng.choice(c)[0]
        return self.make(t)

    def make(self, t):
        """Produce a value of type t from what is available (conversion) or a constant."""
        rng = self.rng
        if isinstance(t, IntT) and rng.random() < 0.6:
            src = self.avail(lambda x: isinstance(x, IntT) and x != t and x.w <= 64)
            if src:
                n, st = rng.choice(src)
                return self.int_cast(n, st, t)
        if isinstance(t, FloatT) and t.w in (32, 64) and rng.random() < 0.4:
            src = self.avail(lambda x: isinstance(x, IntT) and x.w in (8, 16, 32, 64))
            if src:
                n, st = rng.choice(src)
                return self.cast("sitofp", n, st, t)
        if isinstance(t, VecT) and rng.random() < 0.6:
            return self.build_vector(t)
        return self.const(t)

    def int_cast(self, n, st, t, kind=None):
        rng = self.rng
        if st.w > t.w:
            fl = set()
            return self.cast("trunc", n, st, t, fl)
        op = kind or rng.choice(["zext", "sext"])
        return self.cast(op, n, st, t)

    def cast(self, op, n, st, t, flags=()):
        fl = sorted(flags)
        if op == "trunc":
            txt = f"llvm.trunc {n}" + (f" overflow<{', '.join(fl)}>" if fl else "") + f" : {st.mlir} to {t.mlir}"
        elif op == "zext":
            txt = "llvm.zext " + ("nneg " if "nneg" in fl else "") + f"{n} : {st.mlir} to {t.mlir}"
        else:
            txt = f"llvm.{op} {n} : {st.mlir} to {t.mlir}"
        return self.emit("cast", t, [n], {"op": op, "from": st, "flags": set(fl)}, txt,
                         {"opc": op, "flags": set(fl)})

    # ---- scalar / vector arithmetic
    def int_bin(self, t=None, op=None, guarded=None):
        rng = self.rng
        t = t or rng.choice(self.int_types())
        et = t.e if isinstance(t, VecT) else t
        op = op or rng.choice(INT_BIN)
        if et.w > 64 and op in ("udiv", "sdiv", "urem", "srem"):
            op = "xor"
        a, b = self.pick(t), self.pick(t)
        guarded = rng.random() < 0.6 if guarded is None else guarded
        if guarded and not isinstance(t, VecT):
            if op in ("udiv", "sdiv", "urem", "srem"):
                one = self.const(t, 1, pool=False)
                b = self.raw_bin("or", t, b, one, ())
                if et.w == 1:
                    pass
            elif op in ("shl", "lshr", "ashr") and et.w > 1:
                k = et.w - 1 if et.w & (et.w - 1) == 0 else (1 << (et.w.bit_length() - 1)) - 1
                m = self.const(t, k, pool=False)
                b = self.raw_bin("and", t, b, m, ())
        flags = set()
        if rng.random() < 0.3:
            if op in ("add", "sub", "mul", "shl"):
                flags = set(rng.choice([["nsw"], ["nuw"], ["nsw", "nuw"]]))
            elif op in ("udiv", "sdiv", "lshr", "ashr"):
                flags = {"exact"}
            elif op == "or":
                flags = {"disjoint"}
        return self.raw_bin(op, t, a, b, flags)

    def raw_bin(self, op, t, a, b, flags):
        fl = sorted(flags)
        if op in ("add", "sub", "mul", "shl"):
            txt = f"llvm.{op} {a}, {b}" + (f" overflow<{', '.join(fl)}>" if fl else "") + f" : {t.mlir}"
        elif op in ("udiv", "sdiv", "lshr", "ashr"):
            txt = f"llvm.{op} " + ("exact " if fl else "") + f"{a}, {b} : {t.mlir}"
        elif op == "or":
            txt = "llvm.or " + ("disjoint " if fl else "") + f"{a}, {b} : {t.mlir}"
        else:
            txt = f"llvm.{op} {a}, {b} : {t.mlir}"
        return self.emit("bin", t, [a, b], {"op": op, "flags": set(fl)}, txt, {"opc": op, "flags": set(fl)})

    def float_bin(self, t=None, op=None, fm=None, dead=False):
        rng = self.rng
        t = t or rng.choice(self.float_types())
        op = op or rng.choice(FLOAT_BIN)
        a, b = self.pick(t), self.pick(t)
        if fm is None:
            fm = set(rng.sample(FM_SAFE, rng.randint(1, 2))) if rng.random() < 0.2 else set()
        return self.raw_fbin(op, t, a, b, fm, pool=not dead)

    def raw_fbin(self, op, t, a, b, fm, pool=True):
        attr = f" {{fastmathFlags = #llvm.fastmath<{', '.join(sorted(fm))}>}}" if fm else ""
        exp_fm = set(fm)
        return self.emit("fbin", t, [a, b], {"op": op, "fm": set(fm)}, f"llvm.{op} {a}, {b}{attr} : {t.mlir}",
                         {"opc": op, "flags": exp_fm}, pool=pool)

    def icmp(self, t=None, pred=None):
        rng = self.rng
        t = t or rng.choice(self.int_types())
        pred = pred or rng.choice(ICMP_PREDS)
        a, b = self.pick(t), self.pick(t)
        rt = VecT(t.n, I1) if isinstance(t, VecT) else I1
        return self.emit("icmp", rt, [a, b], {"pred": pred, "ty": t}, f'llvm.icmp "{pred}" {a}, {b} : {t.mlir}',
                         {"opc": "icmp", "pred": pred})

    def fcmp(self, t=None, pred=None):
        rng = self.rng
        t = t or rng.choice(FLOATS)
        pred = pred or rng.choice(FCMP_PREDS)
        a, b = self.pick(t), self.pick(t)
        return self.emit("fcmp", I1, [a, b], {"pred": pred, "ty": t}, f'llvm.fcmp "{pred}" {a}, {b} : {t.mlir}',
                         {"opc": "fcmp", "pred": pred})

    def select(self, t=None):
        t = t or self.rng.choice(self.any_types())
        c = self.pick(I1)
        a, b = self.pick(t), self.pick(t)
        return self.emit("select", t, [c, a, b], {}, f"llvm.select {c}, {a}, {b} : i1, {t.mlir}", {"opc": "select"})

    def fneg(self, t=None):
        t = t or self.rng.choice(self.float_types())
        a = self.pick(t)
        return self.emit("fneg", t, [a], {}, f"llvm.fneg {a} : {t.mlir}", {"opc": "fneg"})

    def un_intr(self, t=None, name=None):
        t = t or self.rng.choice(self.float_types())
        name = name or self.rng.choice(UN_INTR)
        t = self.mg.intr_type(name, t)
        a = self.pick(t)
        return self.emit("un_intr", t, [a], {"name": name}, f"llvm.intr.{name}({a}) : ({t.mlir}) -> {t.mlir}",
                         {"opc": "call", "callee_prefix": f"llvm.{name}"})

    def bin_intr(self, t=None, name=None):
        t = t or self.rng.choice(self.float_types())
        name = name or self.rng.choice(BIN_INTR)
        t = self.mg.intr_type(name, t)
        a, b = self.pick(t), self.pick(t)
        return self.emit("bin_intr", t, [a, b], {"name": name},
                         f"llvm.intr.{name}({a}, {b}) : ({t.mlir}, {t.mlir}) -> {t.mlir}",
                         {"opc": "call", "callee_prefix": f"llvm.{name}"})

    def fma(self, t=None):
        t = t or self.rng.choice(self.float_types())
        a, b, c = self.pick(t), self.pick(t), self.pick(t)
        return self.emit("fma", t, [a, b, c], {}, f"llvm.intr.fma({a}, {b}, {c}) : ({t.mlir}, {t.mlir}, {t.mlir}) -> {t.mlir}",
                         {"opc": "call", "callee_prefix": "llvm.fma"})

    def vreduce(self, vt=None, op=None):
        vt = vt or self.rng.choice([V4F32, V2F64])
        op = op or self.rng.choice(["fadd", "fmul"])
        s, v = self.pick(vt.e), self.pick(vt)
        return self.emit("vreduce", vt.e, [s, v], {"op": op},
                         f'"llvm.intr.vector.reduce.{op}"({s}, {v}) <{{fastmathFlags = #llvm.fastmath<none>}}> : ({vt.e.mlir}, {vt.mlir}) -> {vt.e.mlir}',
                         {"opc": "call", "callee_prefix": f"llvm.vector.reduce.{op}"})

    def int_intrinsic(self, base=None, t=None):
        rng = self.rng
        base = base or rng.choice(INT_INTRINSICS)
        cands = [x for x in SIG_INTS[1:] + ([IntT(128)] if self.mg.wide else [])]
        if base == "bswap":
            cands = [I16, I32, I64]
        t = t or rng.choice(cands)
        suffix = rng.random() < 0.85 or base.endswith(".with.overflow") or base in ("ctlz", "cttz", "abs", "expect")
        name = f"llvm.{base}" + (f".{t.mlir}" if suffix else "")
        nargs = 3 if base in ("fshl", "fshr") else 1 if base in ("ctpop", "bswap", "bitreverse") else 2
        args = [self.pick(t) for _ in range(nargs)]
        tys = [t] * nargs
        if base in ("abs", "ctlz", "cttz"):
            flag = rng.choice([0, 1])
            args = [args[0], self.const(I1, flag, pool=False)]
            tys = [t, I1]
        rt = StructT([t, I1]) if base.endswith(".with.overflow") else t
        a = ", ".join(args)
        return self.emit("call_intr", rt, args, {"base": base, "ety": t},
                         f'llvm.call_intrinsic "{name}"({a}) : ({", ".join(x.mlir for x in tys)}) -> {rt.mlir}',
                         {"opc": "call", "callee_prefix": f"llvm.{base}"})

    def float_intrinsic(self, base=None, t=None):
        rng = self.rng
        base = base or rng.choice(FLOAT_INTRINSICS)
        t = t or rng.choice(FLOATS)
        nargs = 3 if base == "fma" else 2 if base in ("copysign", "minimum", "maximum") else 1
        args = [self.pick(t) for _ in range(nargs)]
        name = f"llvm.{base}.{t.mlir}"
        return self.emit("call_intr", t, args, {"base": base, "ety": t},
                         f'llvm.call_intrinsic "{name}"({", ".join(args)}) : ({", ".join([t.mlir] * nargs)}) -> {t.mlir}',
                         {"opc": "call", "callee_prefix": f"llvm.{base}"})

    def donothing(self):
        return self.emit("call_intr", None, [], {"base": "donothing", "ety": None},
                         'llvm.call_intrinsic "llvm.donothing"() : () -> ()', {"opc": "call", "callee_prefix": "llvm.donothing"})

    def conv(self):
        """A random legal conversion of an available value."""
        rng = self.rng
        c = self.avail(lambda x: isinstance(x, (IntT, FloatT)) or (isinstance(x, VecT) and x.e.bits >= 8))
        if not c:
            return self.const(I32)
        n, st = rng.choice(c)
        if isinstance(st, IntT):
            opts = []
            for t in self.int_types(scalar=True):
                if t.w < st.w:
                    opts.append(("trunc", t))
                elif t.w > st.w:
                    opts += [("zext", t), ("sext", t)]
            if st.w in (32, 64):
                opts.append(("bitcast", FloatT(st.w)))
            if st.w == 16:
                opts.append(("bitcast", F16))
            if st.w in (8, 16, 32, 64):
                opts += [("sitofp", F32), ("sitofp", F64)]
            if st.w == 64 and self.mg.vec:
                opts += [("bitcast", VecT(2, I32)), ("bitcast", VecT(4, I16)), ("bitcast", VecT(2, F32))]
            if st.w == 128:
                opts += [("bitcast", V4I32), ("bitcast", V2I64), ("bitcast", V4F32)]
            op, t = rng.choice(opts)
            fl = set()
            if op == "trunc" and rng.random() < 0.3:
                fl = set(rng.choice([["nsw"], ["nuw"], ["nsw", "nuw"]]))
            if op == "zext" and rng.random() < 0.3:
                fl = {"nneg"}
            return self.cast(op, n, st, t, fl)
        if isinstance(st, FloatT):
            opts = [("bitcast", IntT(st.w))]
            if st.w == 32:
                opts.append(("fpext", F64))
            if st.w == 16:
                opts += [("fpext", F32), ("fpext", F64)]
            op, t = rng.choice(opts)
            return self.cast(op, n, st, t)
        # vectors
        opts = [("bitcast", IntT(st.bits))] if (self.mg.wide or st.bits <= 64) else []
        for vt in VECS:
            if vt.bits == st.bits and vt != st:
                opts.append(("bitcast", vt))
        if isinstance(st.e, IntT):
            for w in (8, 16, 32, 64):
                if w < st.e.w:
                    opts.append(("trunc", VecT(st.n, IntT(w))))
                elif w > st.e.w and w * st.n <= 256:
                    opts += [("zext", VecT(st.n, IntT(w))), ("sext", VecT(st.n, IntT(w)))]
            if st.e.w == 32:
                opts.append(("sitofp", VecT(st.n, F32)))
        elif st.e.w == 32 and st.n <= 4:
            opts.append(("fpext", VecT(st.n, F64)))
        if not opts:
            return self.const(I32)
        op, t = rng.choice(opts)
        return self.cast(op, n, st, t)

    # ---- type menus
    def int_types(self, scalar=False):
        ts = list(SIG_INTS)
        if self.mg.odd:
            ts += ODD_INTS
        if self.mg.wide:
            ts.append(IntT(128))
        if self.mg.vec and not scalar:
            ts += [V4I32, V2I64, V8I16]
        return ts

    def float_types(self):
        return FLOATS + ([V4F32, V2F64] if self.mg.vec else [])

    def any_types(self):
        ts = self.int_types() + self.float_types()
        if self.mg.mem:
            ts.append(PTR)
        return ts

    # ---- vectors / aggregates
    def build_vector(self, t):
        rng = self.rng
        cur = self.emit("undef", t, [], {}, f"llvm.mlir.undef : {t.mlir}", pool=False) if rng.random() < 0.5 else self.const(t)
        for i in rng.sample(range(t.n), t.n) if rng.random() < 0.7 else range(t.n):
            x = self.pick(t.e, fresh=0.3)
            it = rng.choice([I32, I64, I8])
            idx = self.const(it, i, pool=False)
            cur = self.emit("insertelement", t, [cur, x, idx], {}, f"llvm.insertelement {x}, {cur}[{idx} : {it.mlir}] : {t.mlir}",
                            {"opc": "insertelement"}, pool=False)
        self.add(cur, t)
        return cur

    def shuffle(self, t=None):
        rng = self.rng
        t = t or rng.choice(VECS)
        a, b = self.pick(t), self.pick(t)
        n = rng.choice([t.n, t.n, 2, 4]) if t.e.bits * 4 <= 256 else t.n
        mask = [rng.randrange(0, 2 * t.n) for _ in range(n)]
        rt = VecT(n, t.e)
        return self.emit("shufflevector", rt, [a, b], {"mask": mask, "n": t.n},
                         f"llvm.shufflevector {a}, {b} [{', '.join(map(str, mask))}] : {t.mlir}", {"opc": "shufflevector"})

    def build_aggregate(self, t):
        rng = self.rng
        if rng.random() < 0.5:
            cur = self.emit("undef", t, [], {}, f"llvm.mlir.undef : {t.mlir}", pool=False)
        else:
            cur = self.emit("zero", t, [], {}, f"llvm.mlir.zero : {t.mlir}", pool=False)
        for pos, lt in leaf_positions(t):
            if rng.random() < 0.85:
                x = self.pick(lt, fresh=0.3)
                cur = self.emit("insertvalue", t, [cur, x], {"pos": pos},
                                f"llvm.insertvalue {x}, {cur}[{', '.join(map(str, pos))}] : {t.mlir}", {"opc": "insertvalue"}, pool=False)
        self.add(cur, t)
        return cur

    def extract(self):
        c = self.avail(lambda x: isinstance(x, (StructT, ArrT)))
        if not c:
            return None
        n, t = self.rng.choice(c)
        pos, lt = [], t
        while isinstance(lt, (StructT, ArrT)) and (not pos or self.rng.random() < 0.8):
            i = self.rng.randrange(len(lt.fs) if isinstance(lt, StructT) else lt.n)
            pos.append(i)
            lt = lt.fs[i] if isinstance(lt, StructT) else lt.e
        return self.emit("extractvalue", lt, [n], {"pos": pos}, f"llvm.extractvalue {n}[{', '.join(map(str, pos))}] : {t.mlir}",
                         {"opc": "extractvalue"})

    # ---- terminators
    def term(self, k, a, attrs, text, expect):
        self.cur.term = Op(k, None, None, list(a), attrs, text, expect)
        self.mg.count(k, attrs)

    def ret(self, v=None):
        if v is None:
            self.term("ret", [], {}, "llvm.return", {"opc": "ret"})
        else:
            self.term("ret", [v], {}, f"llvm.return {v} : {self.f.ret.mlir}", {"opc": "ret"})

    def br(self, dest, vals=()):
        a = "(" + ", ".join(vals) + " : " + ", ".join(t.mlir for _n, t in dest.args) + ")" if vals else ""
        self.term("br", vals, {"dest": dest.label}, f"llvm.br ^{dest.label}{a}", {"opc": "br"})

    def condbr(self, c, tb, tv, fb, fv):
        ta = "(" + ", ".join(tv) + " : " + ", ".join(t.mlir for _n, t in tb.args) + ")" if tv else ""
        fa = "(" + ", ".join(fv) + " : " + ", ".join(t.mlir for _n, t in fb.args) + ")" if fv else ""
        self.term("condbr", [c], {"tdest": tb.label, "targs": list(tv), "fdest": fb.label, "fargs": list(fv)},
                  f"llvm.cond_br {c}, ^{tb.label}{ta}, ^{fb.label}{fa}", {"opc": "br"})

    def unreachable(self):
        self.term("unreachable", [], {}, "llvm.unreachable", {"opc": "unreachable"})


def leaf_positions(t, pre=()):
    if isinstance(t, StructT):
        for i, f in enumerate(t.fs):
            yield from leaf_positions(f, pre + (i,))
    elif isinstance(t, ArrT):
        for i in range(t.n):
            yield from leaf_positions(t.e, pre + (i,))
    else:
        yield list(pre), t


# ------------------------------------------------------------------------------------------ memory / calls / cfg
def _fb_method(fn):
    setattr(FB, fn.__name__, fn)
    return fn


MEM_LEAVES = [I8, I16, I32, I64, F32, F64, PTR]


def rand_object_type(rng, vec):
    leaves = MEM_LEAVES + ([V4F32, V2F64, V4I32] if vec else [])

    def go(d):
        r = rng.random()
        if d >= 2 or r < 0.45:
            return rng.choice(leaves)
        if r < 0.75:
            return ArrT(rng.choice([2, 3, 4, 8]), go(d + 1))
        return StructT([go(d + 1) for _ in range(rng.randint(1, 4))], name=rng.choice(["", "", "", "S"]))
    return go(0)


@_fb_method
def objects(self):
    out = [o for sc in self.alloca_scopes for o in sc]
    return out


@_fb_method
def alloca(self, elem=None, count=None, align=None):
    rng = self.rng
    elem = elem or rand_object_type(rng, self.mg.vec)
    count = count or rng.choice([1, 1, 1, 2, 4])
    ct = rng.choice([I32, I64, I32, I8])
    c = self.const(ct, count, pool=False)
    if align is None and rng.random() < 0.3:
        align = rng.choice([1, 2, 4, 8, 16, 32, 64])
    attr = f" {{alignment = {align} : i64}}" if align else ""
    p = self.emit("alloca", PTR, [c], {"elem": elem, "align": align},
                  f"llvm.alloca {c} x {elem.mlir}{attr} : ({ct.mlir}) -> !llvm.ptr", {"opc": "alloca", "align": align})
    self.alloca_scopes[-1].append((p, elem, count, align or layout(elem)[1]))
    return p


@_fb_method
def global_objects(self):
    return [(None, g.ty, 1, g.align or layout(g.ty)[1], g) for g in self.mg.mod.globals]


@_fb_method
def address(self, want_write=False):
    """GEP to a leaf of a known object -> (ptr name, leaf type, known alignment of the address)."""
    rng = self.rng
    objs = [(p, t, n, al, None) for (p, t, n, al) in self.objects()] + \
        [g for g in self.global_objects() if not (want_write and g[4].const)]
    if not objs:
        self.alloca()
        objs = [(p, t, n, al, None) for (p, t, n, al) in self.objects()]
    p, t, n, al, g = rng.choice(objs)
    if g is not None:
        p = self.emit("addressof", PTR, [], {"sym": g.name}, f"llvm.mlir.addressof {sym_text(g.name)} : !llvm.ptr", pool=rng.random() < 0.3)
    wild = rng.random() < 0.06
    idx, idxw, txt_idx, tys = [], {}, [], []
    known = al
    cur_t = t
    first = True
    while True:
        if first:
            bound, stride = n, layout(t)[0]
        elif isinstance(cur_t, ArrT):
            bound, stride = cur_t.n, layout(cur_t.e)[0]
        elif isinstance(cur_t, StructT):
            bound, stride = len(cur_t.fs), None
        else:
            break
        if not first and rng.random() < 0.12 and not isinstance(cur_t, (IntT, FloatT, PtrT, VecT)):
            break  # address of an aggregate member: load/store of the aggregate itself is not generated; stop at leaf
        dyn = stride is not None and rng.random() < 0.35
        if dyn:
            it = rng.choice([I32, I64, I8, I16])
            x = self.pick(it)
            if not wild:
                if bound & (bound - 1) == 0:
                    m = self.const(it, bound - 1, pool=False)
                    x = self.raw_bin("and", it, x, m, ())
                else:
                    m = self.const(it, bound, pool=False)
                    x = self.raw_bin("urem", it, x, m, ())
                self.scopes[-1].pop()
            idx.append(x)
            idxw[x] = it.w
            txt_idx.append(x)
            tys.append(it)
            known = min(known, stride & -stride) if stride else known
        else:
            i = rng.randrange(bound) if not (wild and stride is not None) else rng.randrange(-1, bound + 2)
            idx.append(i)
            txt_idx.append(str(i))
            if stride is not None:
                if i:
                    known = min(known, (i * stride) & -(i * stride)) if i * stride else known
            else:
                off = struct_offsets(cur_t)[i]
                if off:
                    known = min(known, off & -off)
        if first:
            first = False
        elif isinstance(cur_t, ArrT):
            cur_t = cur_t.e
        else:
            cur_t = cur_t.fs[idx[-1]]
        if not isinstance(cur_t, (ArrT, StructT)):
            break
    while isinstance(cur_t, (ArrT, StructT)):  # descend with zeros to reach a leaf
        idx.append(0)
        txt_idx.append("0")
        cur_t = cur_t.e if isinstance(cur_t, ArrT) else cur_t.fs[0]
    inb = rng.random() < 0.4
    sig = ", ".join(["!llvm.ptr"] + [x.mlir for x in tys])
    q = self.emit("gep", PTR, [p] + [x for x in idx if isinstance(x, str)],
                  {"elem": t, "idx": idx, "idxw": idxw, "inbounds": inb},
                  f"llvm.getelementptr {'inbounds ' if inb else ''}{p}[{', '.join(txt_idx)}] : ({sig}) -> !llvm.ptr, {t.mlir}",
                  {"opc": "getelementptr", "flags": {"inbounds"} if inb else set()}, pool=rng.random() < 0.3)
    return q, cur_t, known, t


@_fb_method
def store_ptr(self, q, t, elem_ok):
    """llvmlite types the GEP result as a pointer to the GEP *source element type*; its builder.store then
    raises TypeError unless the stored type equals it.  Most stores therefore go through ptrtoint/inttoptr
    (an opaque pointer); a few stay raw (module 'not translated', counted)."""
    if elem_ok or self.rng.random() < 0.03:
        return q
    i = self.emit("cast", I64, [q], {"op": "ptrtoint", "from": PTR, "flags": set()}, f"llvm.ptrtoint {q} : !llvm.ptr to i64",
                  {"opc": "ptrtoint", "flags": set()}, pool=False)
    return self.emit("cast", PTR, [i], {"op": "inttoptr", "from": I64, "flags": set()}, f"llvm.inttoptr {i} : i64 to !llvm.ptr",
                     {"opc": "inttoptr", "flags": set()}, pool=False)


@_fb_method
def _align_choice(self, t, known):
    rng = self.rng
    r = rng.random()
    if r < 0.6:
        return None
    nat = layout(t)[1]
    if r < 0.75:
        return 1
    if r < 0.95:
        return min(nat, known)
    return rng.choice([2, 4, 8, 16, 32])


@_fb_method
def store(self):
    q, t, known, et = self.address(want_write=True)
    rng = self.rng
    if rng.random() < 0.08:  # type punning: another leaf type of at most the same size
        alt = [x for x in MEM_LEAVES if layout(x)[0] <= layout(t)[0]]
        t = rng.choice(alt)
    v = self.pick(t)
    q = self.store_ptr(q, t, t == et)
    al = self._align_choice(t, known)
    if al is None and known < layout(t)[1]:
        al = known
    attr = f" {{alignment = {al} : i64}}" if al else ""
    self.emit("store", None, [v, q], {"ty": t, "align": al}, f"llvm.store {v}, {q}{attr} : {t.mlir}, !llvm.ptr",
              {"opc": "store", "align": al, "ty": t})


@_fb_method
def load(self):
    q, t, known, _et = self.address()
    rng = self.rng
    if rng.random() < 0.08:
        alt = [x for x in MEM_LEAVES if layout(x)[0] <= layout(t)[0]]
        t = rng.choice(alt)
    al = self._align_choice(t, known)
    if al is None and known < layout(t)[1]:
        al = known
    attr = f" {{alignment = {al} : i64}}" if al else ""
    return self.emit("load", t, [q], {"align": al}, f"llvm.load {q}{attr} : !llvm.ptr -> {t.mlir}",
                     {"opc": "load", "align": al, "ty": t})


@_fb_method
def store_then_load(self):
    """Write then read the same leaf (keeps most loads defined)."""
    q, t, known, et = self.address(want_write=True)
    v = self.pick(t)
    al = None if known >= layout(t)[1] else known
    attr = f" {{alignment = {al} : i64}}" if al else ""
    qs = self.store_ptr(q, t, t == et)
    self.emit("store", None, [v, qs], {"ty": t, "align": al}, f"llvm.store {v}, {qs}{attr} : {t.mlir}, !llvm.ptr",
              {"opc": "store", "align": al, "ty": t})
    for _ in range(self.rng.randint(0, 2)):
        self.simple()
    return self.emit("load", t, [q], {"align": al}, f"llvm.load {q}{attr} : !llvm.ptr -> {t.mlir}",
                     {"opc": "load", "align": al, "ty": t})


@_fb_method
def masked_store(self):
    rng = self.rng
    vt, it = rng.choice([(V4F32, V4I32), (V2F64, V2I64)])
    vt = self.mg.intr_type("masked.store", vt)
    it = V4I32 if vt == V4F32 else V2I64
    p = self.alloca(elem=vt, count=1, align=rng.choice([None, 16, 32]))
    init = self.pick(vt)
    self.emit("store", None, [init, p], {"ty": vt, "align": None}, f"llvm.store {init}, {p} : {vt.mlir}, !llvm.ptr",
              {"opc": "store", "align": None, "ty": vt})
    m = self.icmp(it)
    self.scopes[-1].pop()
    v = self.pick(vt)
    al = rng.choice([4, 8, 16] if vt is V4F32 else [8, 16])
    self.emit("masked_store", None, [v, p, m], {"ty": vt, "align": al},
              f"llvm.intr.masked.store {v}, {p}, {m} {{alignment = {al} : i32}} : {vt.mlir}, vector<{vt.n}xi1> into !llvm.ptr",
              {"opc": "call", "callee_prefix": "llvm.masked.store"})
    return self.emit("load", vt, [p], {"align": None}, f"llvm.load {p} : !llvm.ptr -> {vt.mlir}", {"opc": "load", "align": None, "ty": vt})


@_fb_method
def ptr_roundtrip(self):
    """ptrtoint -> (+- constant) -> inttoptr -> load: exercises both casts with an observable result."""
    q, t, known, _et = self.address()
    i = self.emit("cast", I64, [q], {"op": "ptrtoint", "from": PTR, "flags": set()}, f"llvm.ptrtoint {q} : !llvm.ptr to i64",
                  {"opc": "ptrtoint", "flags": set()}, pool=False)
    if self.rng.random() < 0.5:
        k = self.rng.choice([4, 8, 16, 1])
        c = self.const(I64, k, pool=False)
        i = self.raw_bin("add", I64, i, c, ())
        self.scopes[-1].pop()
        i = self.raw_bin("sub", I64, i, c, ())
        self.scopes[-1].pop()
    p2 = self.emit("cast", PTR, [i], {"op": "inttoptr", "from": I64, "flags": set()}, f"llvm.inttoptr {i} : i64 to !llvm.ptr",
                   {"opc": "inttoptr", "flags": set()}, pool=False)
    al = None if known >= layout(t)[1] else known
    attr = f" {{alignment = {al} : i64}}" if al else ""
    return self.emit("load", t, [p2], {"align": al}, f"llvm.load {p2}{attr} : !llvm.ptr -> {t.mlir}",
                     {"opc": "load", "align": al, "ty": t})


@_fb_method
def call(self, callee=None):
    rng = self.rng
    cands = self.mg.callable_from(self.f)
    if not cands:
        return None
    callee = callee or rng.choice(cands)
    args = [self.pick(t) for _n, t in callee.args]
    tys = [t for _n, t in callee.args]
    extra = ""
    if callee.variadic:
        for _ in range(rng.randint(0, 2)):
            t = rng.choice([I32, I64, F64])
            args.append(self.pick(t))
            tys.append(t)
        sig = ", ".join(t.mlir for _n, t in callee.args)
        extra = f" vararg(!llvm.func<{callee.ret.mlir if callee.ret else 'void'} ({sig}{', ' if sig else ''}...)>)"
    no_stack = not self.objects() and not any(isinstance(t, PtrT) for t in tys)
    kind = "none"
    r = rng.random()
    if r < 0.12 and no_stack:
        kind = "tail"
    elif r < 0.2 and no_stack:
        kind = "notail"
    fm = set()
    if callee.ret is not None and isinstance(callee.ret, FloatT) and rng.random() < 0.3:
        fm = set(rng.sample(FM_SAFE, 1))
    attr = f" {{fastmathFlags = #llvm.fastmath<{', '.join(sorted(fm))}>}}" if fm else ""
    cc = callee.cconv
    txt = "llvm.call " + (cc + " " if cc != "ccc" else "") + (kind + " " if kind != "none" else "") + \
        f"{callee.sym()}({', '.join(args)}){extra}{attr} : ({', '.join(t.mlir for t in tys)}) -> " + \
        (callee.ret.mlir if callee.ret else "()")
    res = self.emit("call", callee.ret, args, {"callee": callee.name, "cconv": cc, "tail": kind, "fm": fm}, txt,
                    {"opc": "call", "callee": callee.name, "cconv": cc, "tail": kind, "flags": fm})
    if fm and res:
        # nnan/ninf on a call: poison if the result is NaN/Inf; modelled by a checked identity in the reference
        self.cur.ops[-1].attrs["fm_result"] = callee.ret
    return res


@_fb_method
def inline_asm(self):
    rng = self.rng
    kind = rng.choice(["mov", "add", "nop"])
    se = "has_side_effects " if rng.random() < 0.5 else ""
    if kind == "nop":
        return self.emit("asm", None, [], {"kind": "nop"}, f'llvm.inline_asm has_side_effects "nop", "" : () -> ()',
                         {"opc": "call", "asm": True})
    t = rng.choice([I32, I64])
    if kind == "mov":
        a = self.pick(t)
        return self.emit("asm", t, [a], {"kind": "mov"}, f'llvm.inline_asm {se}"mov $1, $0", "=r,r" {a} : ({t.mlir}) -> {t.mlir}',
                         {"opc": "call", "asm": True})
    a, b = self.pick(t), self.pick(t)
    return self.emit("asm", t, [a, b], {"kind": "add"},
                     f'llvm.inline_asm {se}"mov $1, $0\\0Aadd $2, $0", "=&r,r,r,~{{flags}}" {a}, {b} : ({t.mlir}, {t.mlir}) -> {t.mlir}',
                     {"opc": "call", "asm": True})


@_fb_method
def cond(self):
    rng = self.rng
    r = rng.random()
    if r < 0.5:
        return self.icmp(rng.choice(self.int_types(scalar=True)))
    if r < 0.7:
        return self.fcmp()
    return self.pick(I1)


@_fb_method
def simple(self):
    """One random non-control statement, weighted by the module's feature set."""
    rng, mg = self.rng, self.mg
    menu = [(10, self.int_bin), (4, self.icmp), (3, self.select), (4, self.conv), (2, self.int_intrinsic)]
    if mg.flt:
        menu += [(6, self.float_bin), (3, self.fcmp), (1, self.fneg), (2, self.un_intr), (1, self.bin_intr), (1, self.fma),
                 (1, self.float_intrinsic), (1, lambda: self.float_bin(fm=set(rng.sample(FM_ALL, rng.randint(1, 3))), dead=True))]
    if mg.vec:
        menu += [(2, self.shuffle), (2, self.vreduce), (2, lambda: self.build_vector(rng.choice(VECS))),
                 (1, self.masked_store if mg.mem else self.shuffle)]
    if mg.agg:
        menu += [(2, lambda: self.build_aggregate(rand_object_type_agg(rng))), (3, self.extract)]
    if mg.mem:
        menu += [(3, self.store_then_load), (3, self.store), (3, self.load), (1, self.alloca), (1, self.ptr_roundtrip)]
    if mg.calls:
        menu += [(4, self.call)]
    if mg.asm:
        menu += [(1, self.inline_asm)]
    if rng.random() < 0.02:
        return self.donothing()
    tot = sum(w for w, _ in menu)
    x = rng.uniform(0, tot)
    for w, fn in menu:
        x -= w
        if x <= 0:
            return fn()
    return menu[0][1]()


def rand_object_type_agg(rng):
    leaves = [I8, I32, I64, F32, F64, I1, I16]

    def go(d):
        r = rng.random()
        if d >= 2 or (d > 0 and r < 0.5):
            return rng.choice(leaves)
        if r < 0.75:
            return StructT([go(d + 1) for _ in range(rng.randint(1, 3))])
        return ArrT(rng.choice([2, 3]), go(d + 1))
    return go(0)


@_fb_method
def block_arg_types(self, k):
    rng = self.rng
    ts = []
    for _ in range(k):
        c = self.avail(lambda x: not isinstance(x, (StructT, ArrT)) or rng.random() < 0.3)
        ts.append(rng.choice(c)[1] if c and rng.random() < 0.7 else rng.choice(self.any_types()))
    return ts


@_fb_method
def if_else(self, depth):
    rng = self.rng
    c = self.cond()
    mts = self.block_arg_types(rng.choice([0, 1, 1, 2, 3]))
    shape = rng.choice(["diamond", "diamond", "tri_then", "tri_else"])
    upfront = rng.random() < 0.5
    mk_merge = lambda: self.new_block([(self.v(), t) for t in mts])
    pre = self.cur
    tb = eb = merge = None
    pass_t = self.block_arg_types(1) if rng.random() < 0.3 else []
    pass_e = self.block_arg_types(1) if rng.random() < 0.3 else []
    if upfront:
        tb = self.new_block([(self.v(), t) for t in pass_t]) if shape != "tri_else" else None
        eb = self.new_block([(self.v(), t) for t in pass_e]) if shape != "tri_then" else None
        merge = mk_merge()
    # values passed on direct edges must be picked in `pre`
    direct = [self.pick(t) for t in mts] if shape != "diamond" else []
    tv = [self.pick(t) for t in pass_t] if shape != "tri_else" else []
    ev = [self.pick(t) for t in pass_e] if shape != "tri_then" else []
    arms = []
    for which in ("t", "e"):
        if (which == "t" and shape == "tri_else") or (which == "e" and shape == "tri_then"):
            continue
        if not upfront:
            blk = self.new_block([(self.v(), t) for t in (pass_t if which == "t" else pass_e)])
            if which == "t":
                tb = blk
            else:
                eb = blk
        blk = tb if which == "t" else eb
        self.cur = blk
        self.push()
        for n, t in blk.args:
            self.add(n, t)
        self.stmts(rng.randint(0, 3), depth + 1)
        vals = [self.pick(t) for t in mts]
        arms.append((self.cur, vals))
        self.pop()
    if not upfront:
        merge = mk_merge()
    for blk, vals in arms:
        self.cur = blk
        self.br(merge, vals)
    self.cur = pre
    if shape == "diamond":
        self.condbr(c, tb, tv, eb, ev)
    elif shape == "tri_then":
        self.condbr(c, tb, tv, merge, direct)
    else:
        self.condbr(c, merge, direct, eb, ev)
    self.cur = merge
    for n, t in merge.args:
        self.add(n, t)
    self.fold(merge.args)


@_fb_method
def loop(self, depth):
    rng = self.rng
    it = rng.choice([I32, I64, I8, I16])
    cts = self.block_arg_types(rng.choice([0, 1, 2]))
    if rng.random() < 0.5:
        n = self.const(it, rng.randint(0, 4), pool=False)
    else:
        x = self.pick(it)
        m = self.const(it, 3, pool=False)
        n = self.raw_bin("and", it, x, m, ())
    zero = self.const(it, 0, pool=False)
    one = self.const(it, 1, pool=False)
    inits = [self.pick(t) for t in cts]
    if rng.random() < 0.55:  # while-loop: header / body / exit
        header = self.new_block([(self.v(), it)] + [(self.v(), t) for t in cts], hint=rng.choice([None, "loop_header"]))
        self.br(header, [zero] + inits)
        self.cur = header
        for nme, t in header.args:
            self.add(nme, t)
        i = header.args[0][0]
        self.mg.count("icmp", None)
        c = self.emit("icmp", I1, [i, n], {"pred": (p := rng.choice(["ult", "slt", "ne"])), "ty": it},
                      f'llvm.icmp "{p}" {i}, {n} : {it.mlir}', {"opc": "icmp", "pred": p})
        ets = self.block_arg_types(rng.choice([0, 1]))
        evals = [self.pick(t) for t in ets]
        body = self.new_block()
        exit_ = self.new_block([(self.v(), t) for t in ets])
        self.condbr(c, body, [], exit_, evals)
        self.cur = body
        self.push()
        self.stmts(rng.randint(1, 3), depth + 1)
        i2 = self.raw_bin("add", it, i, one, ())
        nxt = [self.pick(t) for t in cts]
        self.br(header, [i2] + nxt)
        self.pop()
        self.cur = exit_
        for nme, t in exit_.args:
            self.add(nme, t)
        self.fold(list(header.args) + list(exit_.args))
    else:  # do-while: the body block is its own predecessor when no nested control flow is generated
        one_more = self.raw_bin("add", it, n, one, ())  # trip count 1..4
        body = self.new_block([(self.v(), it)] + [(self.v(), t) for t in cts])
        self.br(body, [zero] + inits)
        self.cur = body
        for nme, t in body.args:
            self.add(nme, t)
        i = body.args[0][0]
        self.stmts(rng.randint(1, 3), depth + 1)
        i2 = self.raw_bin("add", it, i, one, ())
        c = self.emit("icmp", I1, [i2, one_more], {"pred": "ult", "ty": it}, f'llvm.icmp "ult" {i2}, {one_more} : {it.mlir}',
                      {"opc": "icmp", "pred": "ult"})
        nxt = [self.pick(t) for t in cts]
        ets = self.block_arg_types(rng.choice([0, 1]))
        evals = [self.pick(t) for t in ets]
        exit_ = self.new_block([(self.v(), t) for t in ets])
        if rng.random() < 0.5:
            self.condbr(c, body, [i2] + nxt, exit_, evals)
        else:
            nc = self.raw_bin("xor", I1, c, self.const(I1, 1, pool=False), ())
            self.condbr(nc, exit_, evals, body, [i2] + nxt)
        self.cur = exit_
        for nme, t in exit_.args:
            self.add(nme, t)
        self.fold(list(body.args) + list(exit_.args) + [(i2, it)])


@_fb_method
def early_exit(self, depth):
    rng = self.rng
    c = self.cond()
    dead = rng.random() < 0.35
    if dead:
        t = self.const(I1, 1, pool=False)
        c = self.raw_bin("or", I1, c, t, ())
    out = self.new_block(hint=rng.choice([None, "exit", "trap"]))
    cont = self.new_block()
    pre = self.cur
    self.cur = out
    self.push()
    if dead and rng.random() < 0.7:
        self.unreachable()
    else:
        self.stmts(rng.randint(0, 2), depth + 1)
        self.finish()
    self.pop()
    self.cur = pre
    if rng.random() < 0.5:
        self.condbr(c, cont, [], out, [])
    else:
        nc = self.raw_bin("xor", I1, c, self.const(I1, 1, pool=False), ())
        self.condbr(nc, out, [], cont, [])
    self.cur = cont


@_fb_method
def stmts(self, n, depth):
    rng, mg = self.rng, self.mg
    for _ in range(n):
        r = rng.random()
        if depth < mg.max_depth and r < mg.p_if:
            self.if_else(depth)
        elif depth < mg.max_depth and r < mg.p_if + mg.p_loop:
            self.loop(depth)
        elif depth < mg.max_depth and r < mg.p_if + mg.p_loop + mg.p_exit:
            self.early_exit(depth)
        else:
            before = len(self.scopes[-1])
            self.simple()
            if rng.random() < 0.3 and len(self.scopes[-1]) > before:
                self.fold([self.scopes[-1][-1]])


@_fb_method
def to_type(self, n, st, rt):
    """Convert scalar value n : st into rt (ints std widths / floats) with supported casts only."""
    rng = self.rng
    if st == rt:
        return n
    if isinstance(st, VecT):
        it = IntT(st.bits)
        i = self.cast("bitcast", n, st, it)
        return self.to_type(i, it, rt)
    if isinstance(st, FloatT):
        if isinstance(rt, FloatT) and st.w < rt.w and rng.random() < 0.6:
            return self.cast("fpext", n, st, rt)
        if rng.random() < 0.35 and st.w in (32, 64):
            o = self.pick(st)
            b = self.emit("fcmp", I1, [n, o], {"pred": (p := rng.choice(FCMP_PREDS)), "ty": st}, f'llvm.fcmp "{p}" {n}, {o} : {st.mlir}',
                          {"opc": "fcmp", "pred": p})
            return self.to_type(b, I1, rt)
        i = self.cast("bitcast", n, st, IntT(st.w))
        return self.to_type(i, IntT(st.w), rt)
    if isinstance(st, IntT):
        if isinstance(rt, IntT):
            return self.int_cast(n, st, rt)
        if st.w in (8, 16, 32, 64) and rng.random() < 0.5:
            return self.cast("sitofp", n, st, rt)
        i = self.int_cast(n, st, IntT(rt.w)) if st.w != rt.w else n
        return self.cast("bitcast", i, IntT(rt.w), rt)
    raise TypeError(st)


@_fb_method
def finish(self):
    """Return a mix of live values so that most of the computation is observable."""
    rng = self.rng
    rt = self.f.ret
    if rt is None:
        # void function: leave a trace in a global if there is one
        gs = [g for g in self.mg.mod.globals if not g.const and g.ty in (I32, I64)]
        if gs:
            g = rng.choice(gs)
            c = self.avail(lambda x: isinstance(x, IntT) and x.w <= 64)
            if c:
                n, st = rng.choice(c[-6:])
                v = self.to_type(n, st, g.ty)
                p = self.emit("addressof", PTR, [], {"sym": g.name}, f"llvm.mlir.addressof {sym_text(g.name)} : !llvm.ptr", pool=False)
                self.emit("store", None, [v, p], {"ty": g.ty, "align": None}, f"llvm.store {v}, {p} : {g.ty.mlir}, !llvm.ptr",
                          {"opc": "store", "align": None, "ty": g.ty})
        return self.ret()
    if not (rt in SIG_INTS or rt in FLOATS):
        return self.ret(self.pick(rt))
    c = self.avail(lambda x: (isinstance(x, IntT) and x.w <= 64) or (isinstance(x, FloatT) and x.w in (32, 64)))
    args = {n for n, _t in self.f.args}
    recent = [x for x in c if x[0] not in args][-8:] or c[-4:]
    if isinstance(rt, FloatT) and rng.random() < 0.5:
        fl = [x for x in recent if x[1] == rt]
        if fl:
            return self.ret(rng.choice(fl)[0])
    if not recent:
        return self.ret(self.const(rt))
    k = rng.randint(1, min(3, len(recent)))
    chosen = rng.sample(recent, k)
    if self.accs[-1] is not None:
        chosen.append((self.accs[-1], I64))
    acc_t = rt if isinstance(rt, IntT) else IntT(rt.w)
    acc = None
    for n, st in chosen:
        v = self.to_type(n, st, acc_t)
        acc = v if acc is None else self.raw_bin(rng.choice(["xor", "add", "sub"]), acc_t, acc, v, ())
    if isinstance(rt, FloatT):
        acc = self.cast("bitcast", acc, acc_t, rt)
    return self.ret(acc)


# ------------------------------------------------------------------------------------------ module generator
PROFILES = {
    #            odd  wide vec  flt  mem  agg  calls asm  depth p_if p_loop p_exit nfuncs stmts
    "straight": (1, 0, 0, 1, 0, 0, 0, 0, 0, 0.0, 0.0, 0.0, (1, 2), (3, 10)),
    "cfg":      (1, 0, 0, 1, 0, 0, 0, 0, 2, 0.22, 0.12, 0.05, (1, 2), (3, 8)),
    "mem":      (0, 0, 0, 1, 1, 1, 0, 0, 1, 0.12, 0.08, 0.02, (1, 2), (4, 10)),
    "call":     (0, 0, 0, 1, 1, 1, 1, 0, 1, 0.12, 0.06, 0.03, (3, 5), (2, 6)),
    "vec":      (0, 1, 1, 1, 1, 0, 0, 0, 1, 0.10, 0.06, 0.0, (1, 2), (4, 9)),
    "mix":      (1, 1, 1, 1, 1, 1, 1, 1, 2, 0.15, 0.10, 0.04, (2, 4), (3, 8)),
}


class MG:
    def __init__(self, rng, profile, counter=None):
        self.rng = rng
        self.profile = profile
        (self.odd, self.wide, self.vec, self.flt, self.mem, self.agg, self.calls, self.asm, self.max_depth, self.p_if,
         self.p_loop, self.p_exit, self.nfuncs, self.nstmts) = PROFILES[profile]
        self.mod = Module()
        self.mod.profile = profile
        self.counter = counter if counter is not None else {}
        self.order = []
        self.intr_types = {}

    def intr_type(self, name, t):
        """The backend declares llvm.intr.* without a type suffix: a second type in one module makes
        convert_module raise (counted by the directed shapes); the random generator keeps one type per name."""
        return self.intr_types.setdefault(name, t)

    def count(self, k, attrs):
        key = k
        if attrs:
            for f in ("op", "name", "base", "pred"):
                if f in attrs:
                    key = f"{k}:{attrs[f]}"
                    break
        self.counter[key] = self.counter.get(key, 0) + 1

    def callable_from(self, f):
        return [g for g in self.mod.funcs if g is not f and g.name in self.done]

    def rand_sig(self, entry):
        rng = self.rng
        tys = list(SIG_INTS[1:]) + [I1] + (FLOATS * 2 if self.flt else [])
        if not entry:
            tys += ([PTR] if self.mem else []) + ([V4F32, V4I32] if self.vec else []) + \
                   ([StructT([I32, I1]), ArrT(2, F32)] if self.agg else [])
        n = rng.randint(1, 4)
        args = [rng.choice(tys) for _ in range(n)]
        rts = list(SIG_INTS) + (FLOATS if self.flt else [])
        if not entry and self.agg:
            rts += [StructT([I32, I64]), StructT([F32, I8])]
        if not entry and self.vec:
            rts += [V4F32]
        ret = rng.choice(rts) if rng.random() < 0.93 else None
        return args, ret

    def globals_(self):
        rng = self.rng
        for i in range(rng.randint(0, 3)):
            name = f"g{i}" if rng.random() < 0.8 else rng.choice(["g.dot", "g$x", "a global", "g-1"]) + str(i)
            r = rng.random()
            const = rng.random() < 0.3
            linkage = rng.choice(["internal", "internal", "private", "weak", "linkonce_odr", "weak_odr"])
            align = rng.choice([None, None, 8, 16, 64])
            if r < 0.4:
                t = rng.choice([I8, I16, I32, I64])
                v = rand_int(rng, t.w)
                g = GlobalDef(name, t, v, const, linkage, align, f"{v} : {t.mlir}")
            elif r < 0.55 and self.flt:
                t = rng.choice(FLOATS)
                v = const_float_bits(rng, t.w)
                g = GlobalDef(name, t, v, const, linkage, align, f"{float_lit(v, t.w)} : {t.mlir}")
            elif r < 0.8:
                et = rng.choice([I8, I16, I32, I64] + (FLOATS if self.flt else []))
                n = rng.choice([2, 3, 4, 8])
                vals = tuple(rand_int(rng, et.w) if isinstance(et, IntT) else rand_finite_float_bits(rng, et.w) for _ in range(n))
                body = ", ".join(str(x) if isinstance(et, IntT) else float_lit(x, et.w) for x in vals)
                g = GlobalDef(name, ArrT(n, et), vals, const, linkage, align, f"dense<[{body}]> : tensor<{n}x{et.mlir}>")
            elif r < 0.9:
                s = rng.choice(["hi", "hello world", "a\\0Ab", "x"])
                raw = s.replace("\\0A", "\n").encode() + b"\0"
                g = GlobalDef(name, ArrT(len(raw), I8), tuple(raw), True, linkage, None, f'"{s}\\00"')
            else:
                t = rand_object_type(rng, False)
                g = GlobalDef(name, t, None, False, linkage, align, None)
            self.mod.globals.append(g)

    def build(self):
        rng = self.rng
        if self.mem:
            self.globals_()
        nf = rng.randint(*self.nfuncs)
        self.done = set()
        funcs = []
        if self.calls and rng.random() < 0.3:
            v = Func("vfn", [("%a0", I32)], I32, variadic=True)
            b = Blk("bb0")
            v.blocks.append(b)
            v.block_by_label["bb0"] = b
            b.term = Op("ret", None, None, ["%a0"], {}, "llvm.return %a0 : i32", {"opc": "ret"})
            self.mod.funcs.append(v)
            self.done.add("vfn")
        for i in range(nf):
            entry = (i == nf - 1) or rng.random() < 0.6
            args, ret = self.rand_sig(entry)
            name = f"f{i}" if rng.random() < 0.85 else rng.choice(["fn.with.dots", "has space", "q\"uote", "back\\slash", "λ", "0digit", "$dollar"]) + str(i)
            cconv = rng.choice(CCONVS[1:]) if (self.calls and rng.random() < 0.06) else "ccc"
            if cconv == "coldcc" and not (ret is None or isinstance(ret, IntT)):
                # LLVM's x86-64 coldcc treats xmm0 as callee-saved and restores it over a floating-point /
                # vector return value (an LLVM code generator defect, reproduced without xDSL): not an oracle
                cconv = "fastcc"
            linkage = rng.choice(["", "", "internal", "private"]) if not entry else ""
            fb = FB(self, name, [(f"%a{k}", t) for k, t in enumerate(args)], ret, cconv, linkage)
            self.mod.funcs.append(fb.f)
            fb.stmts(rng.randint(*self.nstmts), 0)
            fb.finish()
            fb.f.profile = self.profile
            self.done.add(name)
        # textual order of functions is free in MLIR: shuffle so that forward references occur
        if rng.random() < 0.5:
            rng.shuffle(self.mod.funcs)
        return self.mod


def gen_module(rng, profile, counter=None):
    return MG(rng, profile, counter).build()


def rand_args(rng, f):
    out = []
    for _n, t in f.args:
        out.append(rand_int(rng, t.w) if isinstance(t, IntT) else rand_float_bits(rng, t.w))
    return out
