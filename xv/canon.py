"""Prototype: independent canonical form of IR and attributes (does not use Attribute.__eq__/__hash__
nor is_structurally_equivalent)."""
import struct, math
from xdsl.ir import (Attribute, Data, ParametrizedAttribute, Operation, Block, Region, SSAValue,
                     OpResult, BlockArgument, ErasedSSAValue)
from xdsl.irdl import IRDLOperation


def canon_py(x):
    """Canonicalise a python payload (Data.data) into hashable primitives; floats by bit pattern."""
    if isinstance(x, Attribute):
        return canon_attr(x)
    if isinstance(x, bool):
        return ("int", int(x))  # IntAttr(True) == IntAttr(1) in xDSL: bool payloads are ints (DESIGN 1.6)
    if isinstance(x, int):
        return ("int", x)
    if isinstance(x, float):
        return ("f64bits", struct.unpack("<Q", struct.pack("<d", x))[0])
    if isinstance(x, str):
        return ("str", x)
    if isinstance(x, bytes):
        return ("bytes", x)
    if x is None:
        return ("none",)
    if isinstance(x, (tuple, list)):
        return ("seq", tuple(canon_py(e) for e in x))
    if isinstance(x, (set, frozenset)):
        return ("set", tuple(sorted((canon_py(e) for e in x), key=repr)))
    if isinstance(x, dict) or hasattr(x, "items"):
        return ("map", tuple(sorted(((canon_py(k), canon_py(v)) for k, v in x.items()), key=repr)))
    import enum
    if isinstance(x, enum.Enum):
        return ("enum", type(x).__name__, x.name)
    # dataclass-like payloads (AffineMap etc.): fall back on str() plus type name
    return ("obj", type(x).__name__, str(x))


def canon_attr(a):
    if isinstance(a, ParametrizedAttribute):
        return ("P", type(a).__module__ + "." + type(a).__qualname__, tuple(canon_py(p) for p in a.parameters))
    if isinstance(a, Data):
        return ("D", type(a).__module__ + "." + type(a).__qualname__, canon_py(a.data))
    return ("?", type(a).__name__, str(a))


def canon_py_strict(x):
    """Like canon_py but (a) bool payloads are ints (IntAttr(True) and IntAttr(1) are the same value by rule),
    (b) dataclass payloads (AffineMap, AffineSet, AffineExpr trees, ...) are canonicalised field by field instead
    of through their str() - so the result never depends on any printer - and (c) enum members carry their
    class.  Added for C06/C08 (bit-exact text round trip, value semantics); canon_py/canon_attr are unchanged."""
    import dataclasses
    import enum
    if isinstance(x, Attribute):
        return canon_attr_strict(x)
    if isinstance(x, enum.Enum):
        return ("enum", type(x).__name__, x.name)
    if isinstance(x, bool):
        return ("int", int(x))
    if isinstance(x, int):
        return ("int", x)
    if isinstance(x, float):
        return ("f64bits", struct.unpack("<Q", struct.pack("<d", x))[0])
    if isinstance(x, str):
        return ("str", x)
    if isinstance(x, (bytes, bytearray)):
        return ("bytes", bytes(x))
    if x is None:
        return ("none",)
    if isinstance(x, (tuple, list)):
        return ("seq", tuple(canon_py_strict(e) for e in x))
    if isinstance(x, (set, frozenset)):
        return ("set", tuple(sorted((canon_py_strict(e) for e in x), key=repr)))
    if isinstance(x, dict) or hasattr(x, "items"):
        return ("map", tuple(sorted(((canon_py_strict(k), canon_py_strict(v)) for k, v in x.items()), key=repr)))
    if dataclasses.is_dataclass(x) and not isinstance(x, type):
        return ("dc", type(x).__name__,
                tuple((f.name, canon_py_strict(getattr(x, f.name))) for f in dataclasses.fields(x)))
    return ("obj", type(x).__name__, str(x))


def canon_attr_strict(a):
    """Printer-independent, bit-level canonical form of an attribute (see canon_py_strict)."""
    if isinstance(a, ParametrizedAttribute):
        return ("P", type(a).__module__ + "." + type(a).__qualname__, tuple(canon_py_strict(p) for p in a.parameters))
    if isinstance(a, Data):
        return ("D", type(a).__module__ + "." + type(a).__qualname__, canon_py_strict(a.data))
    return ("?", type(a).__name__, str(a))


def _normalise_props(op):
    """Equivalence rules of C04: a property equal to its declared default counts as absent; an inherent
    attribute given in the attribute dictionary counts as the property it denotes."""
    props = dict(op.properties)
    attrs = dict(op.attributes)
    if isinstance(op, IRDLOperation):
        d = op.get_irdl_definition()
        for name, pdef in d.properties.items():
            if name in attrs and name not in props:
                props[name] = attrs.pop(name)
            dv = getattr(pdef, "default_value", None)
            if dv is not None and name in props and canon_attr(props[name]) == canon_attr(dv):
                del props[name]
    return props, attrs


def canon_ir(root, *, with_hints=False, normalise=True, with_loc=False):
    """Canonical nested tuple for an Operation/Block/Region. Values & blocks defined inside are numbered
    by definition position (pre-pass), references to outside are identity tokens."""
    vnum, bnum = {}, {}

    def number_op(op):
        for r in op.results:
            vnum[id(r)] = len(vnum)
        for reg in op.regions:
            number_region(reg)

    def number_block(b):
        bnum[id(b)] = len(bnum)
        for a in b.args:
            vnum[id(a)] = len(vnum)
        for o in b.ops:
            number_op(o)

    def number_region(r):
        for b in r.blocks:
            number_block(b)

    def ref(v):
        if id(v) in vnum:
            return ("v", vnum[id(v)])
        if isinstance(v, ErasedSSAValue):
            return ("erased", canon_attr(v.type))
        return ("ext", id(v))

    def bref(b):
        return ("b", bnum[id(b)]) if id(b) in bnum else ("extb", id(b))

    def c_op(op):
        if normalise:
            props, attrs = _normalise_props(op)
        else:
            props, attrs = op.properties, op.attributes
        name = op.name
        from xdsl.dialects.builtin import UnregisteredOp
        if isinstance(op, UnregisteredOp):
            name = "unregistered:" + op.op_name.data
            attrs = {k: v for k, v in attrs.items() if k != "op_name__"}
        return ("op", name,
                tuple(ref(o) for o in op.operands),
                tuple((canon_attr(r.type),) + ((r.name_hint,) if with_hints else ()) for r in op.results),
                tuple(sorted((k, canon_attr(v)) for k, v in props.items())),
                tuple(sorted((k, canon_attr(v)) for k, v in attrs.items())),
                tuple(bref(s) for s in op.successors),
                tuple(c_region(r) for r in op.regions)) + ((canon_attr(op.location),) if with_loc else ())

    def c_block(b):
        return ("block", tuple((canon_attr(a.type),) + ((a.name_hint,) if with_hints else ()) for a in b.args),
                tuple(c_op(o) for o in b.ops))

    def c_region(r):
        return ("region", tuple(c_block(b) for b in r.blocks))

    if isinstance(root, Operation):
        number_op(root); return c_op(root)
    if isinstance(root, Block):
        number_block(root); return c_block(root)
    number_region(root); return c_region(root)
