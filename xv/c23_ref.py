"""C23 reference semantics of the llvm dialect *source* operations (LLVM LangRef semantics).

Independent of xdsl: it interprets the generator's own program structure (`xv.c23_gen`), never xdsl ops,
folders or interpreters.

Value representation
* iN           : python int, the bit pattern in [0, 2**N)
* f16/f32/f64  : python int, the IEEE bit pattern, or NANY ("some NaN": LLVM leaves sign/payload of NaNs
                 produced by arithmetic unspecified)
* ptr          : (block id, byte offset); block 0 is the null/integer "block"; ("fn:name", 0) a function
* ptrtoint of a real block: ("pint", block, offset) (numeric address unknown; only add/sub/inttoptr)
* vectors      : tuple of element values; structs/arrays: tuple of member values
* UNDEF        : member of a container that was never written (llvm.mlir.undef); observing it excludes

`Excluded(reason)` is raised when the source program has UB, produces poison, observes undef or an
unspecified value on this input: the input vector is then not compared (counted per reason).
"""
from __future__ import annotations

import ctypes
import ctypes.util
import math
import struct
from fractions import Fraction

NANY = -1
UNDEF = ("undef",)


class Excluded(Exception):
    pass


# ----------------------------------------------------------------------------------------------- types
class T:
    __slots__ = ("key",)

    def __eq__(self, o):
        return isinstance(o, T) and self.key == o.key

    def __hash__(self):
        return hash(self.key)

    def __repr__(self):
        return self.key


class IntT(T):
    __slots__ = ("w",)

    def __init__(self, w):
        self.w = w
        self.key = f"i{w}"

    mlir = property(lambda s: s.key)
    llvm = property(lambda s: s.key)
    bits = property(lambda s: s.w)


class FloatT(T):
    __slots__ = ("w",)

    def __init__(self, w):
        self.w = w
        self.key = f"f{w}"

    mlir = property(lambda s: s.key)
    llvm = property(lambda s: {16: "half", 32: "float", 64: "double"}[s.w])
    bits = property(lambda s: s.w)


class PtrT(T):
    __slots__ = ("asp",)

    def __init__(self, asp=None):
        self.asp = asp
        self.key = "!llvm.ptr" if asp is None else f"!llvm.ptr<{asp}>"

    mlir = property(lambda s: s.key)
    llvm = property(lambda s: "ptr" if not s.asp else f"ptr addrspace({s.asp})")
    bits = property(lambda s: 64)


class VecT(T):
    __slots__ = ("n", "e")

    def __init__(self, n, e):
        self.n, self.e = n, e
        self.key = f"vector<{n}x{e.key}>"

    mlir = property(lambda s: s.key)
    llvm = property(lambda s: f"<{s.n} x {s.e.llvm}>")
    bits = property(lambda s: s.n * s.e.bits)


class ArrT(T):
    __slots__ = ("n", "e")

    def __init__(self, n, e):
        self.n, self.e = n, e
        self.key = f"!llvm.array<{n} x {e.key}>"

    mlir = property(lambda s: s.key)
    llvm = property(lambda s: f"[{s.n} x {s.e.llvm}]")


class StructT(T):
    __slots__ = ("fs", "name")

    def __init__(self, fs, name=""):
        self.fs = tuple(fs)
        self.name = name
        inner = "(" + ", ".join(f.key for f in self.fs) + ")"
        self.key = f'!llvm.struct<"{name}", {inner}>' if name else f"!llvm.struct<{inner}>"

    mlir = property(lambda s: s.key)
    llvm = property(lambda s: "{" + ", ".join(f.llvm for f in s.fs) + "}")


I1, I8, I16, I32, I64 = IntT(1), IntT(8), IntT(16), IntT(32), IntT(64)
F16, F32, F64 = FloatT(16), FloatT(32), FloatT(64)
PTR = PtrT()


def _p2ceil(n):
    p = 1
    while p < n:
        p *= 2
    return p


def layout(t):
    """(alloc size in bytes, abi alignment) under the x86-64 SysV data layout LLVM uses for the host."""
    if isinstance(t, IntT):
        st = (t.w + 7) // 8
        al = min(_p2ceil(st), 16 if t.w > 64 else 8)
        return ((st + al - 1) // al * al, al)
    if isinstance(t, FloatT):
        return (t.w // 8, t.w // 8)
    if isinstance(t, PtrT):
        return (8, 8)
    if isinstance(t, VecT):
        st = (t.bits + 7) // 8
        al = min(_p2ceil(st), 64)
        return ((st + al - 1) // al * al, al)
    if isinstance(t, ArrT):
        s, a = layout(t.e)
        return (s * t.n, a)
    if isinstance(t, StructT):
        off, al = 0, 1
        for f in t.fs:
            s, a = layout(f)
            off = (off + a - 1) // a * a + s
            al = max(al, a)
        return ((off + al - 1) // al * al, al)
    raise TypeError(t)


def struct_offsets(t):
    off, out = 0, []
    for f in t.fs:
        s, a = layout(f)
        off = (off + a - 1) // a * a
        out.append(off)
        off += s
    return out


def store_size(t):
    if isinstance(t, (IntT, FloatT, PtrT, VecT)):
        return (t.bits + 7) // 8
    return layout(t)[0]


# ----------------------------------------------------------------------------------------------- ints
def U(x, w):
    return x & ((1 << w) - 1)


def S(x, w):
    x &= (1 << w) - 1
    return x - (1 << w) if x >> (w - 1) else x


def _poison(why):
    raise Excluded("poison:" + why)


def _ub(why):
    raise Excluded("ub:" + why)


def int_bin(op, a, b, w, flags=()):
    if isinstance(a, tuple) or isinstance(b, tuple):
        return _pint_bin(op, a, b, w)
    m = (1 << w) - 1
    if op == "add":
        r = a + b
        if "nuw" in flags and r > m:
            _poison("add-nuw")
        if "nsw" in flags and not (-(1 << (w - 1)) <= S(a, w) + S(b, w) < (1 << (w - 1))):
            _poison("add-nsw")
        return r & m
    if op == "sub":
        if "nuw" in flags and a < b:
            _poison("sub-nuw")
        if "nsw" in flags and not (-(1 << (w - 1)) <= S(a, w) - S(b, w) < (1 << (w - 1))):
            _poison("sub-nsw")
        return (a - b) & m
    if op == "mul":
        if "nuw" in flags and a * b > m:
            _poison("mul-nuw")
        if "nsw" in flags and not (-(1 << (w - 1)) <= S(a, w) * S(b, w) < (1 << (w - 1))):
            _poison("mul-nsw")
        return (a * b) & m
    if op in ("udiv", "urem"):
        if b == 0:
            _ub("div-by-zero")
        if op == "udiv":
            if "exact" in flags and a % b:
                _poison("udiv-exact")
            return a // b
        return a % b
    if op in ("sdiv", "srem"):
        sa, sb = S(a, w), S(b, w)
        if sb == 0:
            _ub("div-by-zero")
        if sa == -(1 << (w - 1)) and sb == -1:
            _ub("sdiv-overflow")
        q = abs(sa) // abs(sb)
        if (sa < 0) != (sb < 0):
            q = -q
        r = sa - q * sb
        if op == "sdiv":
            if "exact" in flags and r:
                _poison("sdiv-exact")
            return q & m
        return r & m
    if op == "shl":
        if b >= w:
            _poison("shift-too-large")
        r = a << b
        if "nuw" in flags and r > m:
            _poison("shl-nuw")
        if "nsw" in flags and S(r & m, w) != S(a, w) * (1 << b):
            _poison("shl-nsw")
        return r & m
    if op == "lshr":
        if b >= w:
            _poison("shift-too-large")
        if "exact" in flags and a & ((1 << b) - 1):
            _poison("lshr-exact")
        return a >> b
    if op == "ashr":
        if b >= w:
            _poison("shift-too-large")
        if "exact" in flags and a & ((1 << b) - 1):
            _poison("ashr-exact")
        return (S(a, w) >> b) & m
    if op == "and":
        return a & b
    if op == "or":
        if "disjoint" in flags and a & b:
            _poison("or-disjoint")
        return a | b
    if op == "xor":
        return a ^ b
    raise KeyError(op)


def _pint_bin(op, a, b, w):
    """Arithmetic on ptrtoint results: only address +- constant and difference inside one block."""
    if w != 64:
        raise Excluded("unspecified:pint-width")
    pa, pb = isinstance(a, tuple), isinstance(b, tuple)
    if op == "add" and pa != pb:
        p, k = (a, b) if pa else (b, a)
        return ("pint", p[1], p[2] + S(k, 64))
    if op == "sub" and pa and not pb:
        return ("pint", a[1], a[2] - S(b, 64))
    if op == "sub" and pa and pb and a[1] == b[1]:
        return U(a[2] - b[2], 64)
    raise Excluded("unspecified:pint-arith")


ICMP = {
    "eq": lambda a, b, w: a == b, "ne": lambda a, b, w: a != b,
    "slt": lambda a, b, w: S(a, w) < S(b, w), "sle": lambda a, b, w: S(a, w) <= S(b, w),
    "sgt": lambda a, b, w: S(a, w) > S(b, w), "sge": lambda a, b, w: S(a, w) >= S(b, w),
    "ult": lambda a, b, w: a < b, "ule": lambda a, b, w: a <= b,
    "ugt": lambda a, b, w: a > b, "uge": lambda a, b, w: a >= b,
}


# ----------------------------------------------------------------------------------------------- floats
FMT = {16: (5, 10, "<e", "<H"), 32: (8, 23, "<f", "<I"), 64: (11, 52, "<d", "<Q")}


def f_is_nan(b, w):
    if b == NANY:
        return True
    e, m = FMT[w][:2]
    return (b >> m) & ((1 << e) - 1) == (1 << e) - 1 and b & ((1 << m) - 1) != 0


def f_is_snan(b, w):
    return b != NANY and f_is_nan(b, w) and not (b >> (FMT[w][1] - 1)) & 1


def f_is_inf(b, w):
    if b == NANY:
        return False
    e, m = FMT[w][:2]
    return (b >> m) & ((1 << e) - 1) == (1 << e) - 1 and b & ((1 << m) - 1) == 0


def f_is_zero(b, w):
    return b != NANY and b & ((1 << (w - 1)) - 1) == 0


def f_sign(b, w):
    return (b >> (w - 1)) & 1


def to_py(b, w):
    """bit pattern -> python float (exact: every f16/f32/f64 value is a double)."""
    if f_is_nan(b, w):
        return math.nan
    return struct.unpack(FMT[w][2], struct.pack(FMT[w][3], b))[0]


def from_py(x, w):
    """python float (a double) -> bit pattern of the value rounded to nearest-even in the format."""
    if x != x:
        return NANY
    if w == 64:
        return struct.unpack("<Q", struct.pack("<d", x))[0]
    try:
        return struct.unpack(FMT[w][3], struct.pack(FMT[w][2], x))[0]
    except OverflowError:
        e, m = FMT[w][:2]
        return ((1 << e) - 1) << m | (1 << (w - 1) if x < 0 else 0)


def round_fraction(q, w, neg_zero=False):
    """Exactly rounded (nearest, ties to even) conversion of a rational to the format's bit pattern."""
    e, m = FMT[w][:2]
    bias = (1 << (e - 1)) - 1
    if q == 0:
        return (1 << (w - 1)) if neg_zero else 0
    sign = 1 if q < 0 else 0
    q = abs(q)
    n, d = q.numerator, q.denominator
    ex = n.bit_length() - d.bit_length()  # 2**ex <= q < 2**(ex+2) roughly
    if Fraction(2) ** ex > q:
        ex -= 1
    elif Fraction(2) ** (ex + 1) <= q:
        ex += 1
    emin = 1 - bias
    qe = max(ex, emin)  # exponent of the quantum's leading position
    scale = m - qe  # q * 2**scale is the significand (with hidden bit) as a rational
    sig = q * (Fraction(2) ** scale)
    fl = sig.numerator // sig.denominator
    rem = sig - fl
    if rem > Fraction(1, 2) or (rem == Fraction(1, 2) and fl & 1):
        fl += 1
    if fl >= 1 << (m + 1):
        fl >>= 1
        qe += 1
    if qe > bias:
        return sign << (w - 1) | ((1 << e) - 1) << m
    if fl < 1 << m:  # subnormal (or rounded up to the smallest normal)
        return sign << (w - 1) | fl
    return sign << (w - 1) | (qe + bias) << m | (fl - (1 << m))


def f_frac(b, w):
    return Fraction(to_py(b, w))


def _finite(b, w):
    return not f_is_nan(b, w) and not f_is_inf(b, w)


def fbin(op, a, b, w):
    """IEEE-754 binary op on bit patterns, round to nearest even."""
    if f_is_nan(a, w) or f_is_nan(b, w):
        return NANY
    x, y = to_py(a, w), to_py(b, w)
    if op == "fadd":
        r = x + y
    elif op == "fsub":
        r = x - y
    elif op == "fmul":
        r = x * y
    elif op == "fdiv":
        if y == 0:
            if x == 0:
                return NANY
            neg = f_sign(a, w) ^ f_sign(b, w)
            return from_py(-math.inf if neg else math.inf, w)
        if math.isinf(x) and math.isinf(y):
            return NANY
        r = x / y
    elif op == "frem":
        if math.isinf(x) or y == 0:
            return NANY
        if math.isinf(y):
            r = x
        else:
            r = math.fmod(x, y)
            if r == 0:
                r = math.copysign(0.0, x)
    else:
        raise KeyError(op)
    return from_py(r, w)


_FCMP = {"eq": lambda x, y: x == y, "gt": lambda x, y: x > y, "ge": lambda x, y: x >= y,
         "lt": lambda x, y: x < y, "le": lambda x, y: x <= y, "ne": lambda x, y: x != y}


def fcmp(pred, a, b, w):
    un = f_is_nan(a, w) or f_is_nan(b, w)
    if pred == "_false":
        return 0
    if pred == "_true":
        return 1
    if pred == "ord":
        return int(not un)
    if pred == "uno":
        return int(un)
    if un:
        return int(pred[0] == "u")
    return int(_FCMP[pred[1:]](to_py(a, w), to_py(b, w)))


_libm = None


def libm():
    global _libm
    if _libm is None:
        _libm = ctypes.CDLL(ctypes.util.find_library("m") or "libm.so.6")
        for n in ("exp", "sin", "cos", "log", "log2", "exp2", "pow"):
            f = getattr(_libm, n)
            f.restype = ctypes.c_double
            f.argtypes = [ctypes.c_double] * (2 if n == "pow" else 1)
            f = getattr(_libm, n + "f")
            f.restype = ctypes.c_float
            f.argtypes = [ctypes.c_float] * (2 if n == "pow" else 1)
    return _libm


def _libm_call(name, w, *args):
    f = getattr(libm(), name + ("f" if w == 32 else ""))
    r = f(*[to_py(a, w) for a in args])
    return from_py(r, w)


def f_unary(name, a, w):
    """llvm.intr.<name> on a scalar."""
    if name == "fabs":
        return a if a == NANY else a & ((1 << (w - 1)) - 1)
    if name == "fneg":
        return a if a == NANY else a ^ (1 << (w - 1))
    if f_is_nan(a, w):
        return NANY
    x = to_py(a, w)
    if name in ("ceil", "floor", "trunc", "rint", "roundeven", "round"):
        if math.isinf(x) or x == 0:
            return a
        if name == "ceil":
            r = float(math.ceil(x))
        elif name == "floor":
            r = float(math.floor(x))
        elif name == "trunc":
            r = float(math.trunc(x))
        elif name == "round":
            r = float(math.floor(Fraction(abs(x)) + Fraction(1, 2))) if abs(x) < 2 ** 52 else abs(x)
            r = math.copysign(r, x)
        else:
            r = float(round(x)) if abs(x) < 2 ** 52 else x
        if r == 0:
            r = math.copysign(0.0, x)
        return from_py(r, w)
    if name == "sqrt":
        if x < 0:
            return NANY
        if x == 0 or math.isinf(x):
            return a
        return from_py(math.sqrt(x), w)
    if name in ("exp", "sin", "cos", "log", "log2", "exp2"):
        if w not in (32, 64):
            raise Excluded("unspecified:libm-f16")
        return _libm_call(name, w, a)
    raise KeyError(name)


def f_binary_intr(name, a, b, w):
    if name == "copysign":
        if a == NANY:
            return NANY
        if b == NANY:
            raise Excluded("unspecified:copysign-of-nan-sign")
        return (a & ((1 << (w - 1)) - 1)) | (b & (1 << (w - 1)))
    if name in ("maxnum", "minnum"):
        if f_is_snan(a, w) or f_is_snan(b, w):
            raise Excluded("unspecified:maxnum-snan")
        na, nb = f_is_nan(a, w), f_is_nan(b, w)
        if na and nb:
            return NANY
        if na:
            return b
        if nb:
            return a
        x, y = to_py(a, w), to_py(b, w)
        if x == y:
            if a != b:
                raise Excluded("unspecified:maxnum-signed-zeros")
            return a
        big = a if x > y else b
        small = b if x > y else a
        return big if name == "maxnum" else small
    if name in ("maximum", "minimum"):
        if f_is_snan(a, w) or f_is_snan(b, w):
            raise Excluded("unspecified:maximum-snan")
        if f_is_nan(a, w) or f_is_nan(b, w):
            return NANY
        x, y = to_py(a, w), to_py(b, w)
        if x == y:
            if a == b:
                return a
            pos, neg = (a, b) if f_sign(a, w) == 0 else (b, a)
            return pos if name == "maximum" else neg
        big = a if x > y else b
        small = b if x > y else a
        return big if name == "maximum" else small
    if name == "pow":
        if w not in (32, 64):
            raise Excluded("unspecified:libm-f16")
        if f_is_snan(a, w) or f_is_snan(b, w):
            # libm: pow(sNaN, 0) / pow(1, sNaN) are NaN (invalid) while pow(qNaN, 0) = pow(1, qNaN) = 1
            raise Excluded("unspecified:pow-snan")
        if a == NANY or b == NANY:
            # pow(1, NaN) = 1 and pow(NaN, 0) = 1: need the real bits; an abstract NaN is still a NaN
            x = math.nan if a == NANY else to_py(a, w)
            y = math.nan if b == NANY else to_py(b, w)
            f = getattr(libm(), "pow" + ("f" if w == 32 else ""))
            return from_py(f(x, y), w)
        return _libm_call("pow", w, a, b)
    raise KeyError(name)


def f_fma(a, b, c, w):
    if f_is_nan(a, w) or f_is_nan(b, w) or f_is_nan(c, w):
        return NANY
    ia, ib, ic = f_is_inf(a, w), f_is_inf(b, w), f_is_inf(c, w)
    sp = f_sign(a, w) ^ f_sign(b, w)
    if ia or ib:
        if f_is_zero(a, w) or f_is_zero(b, w):
            return NANY
        if ic and f_sign(c, w) != sp:
            return NANY
        return from_py(-math.inf if sp else math.inf, w)
    if ic:
        return c
    q = f_frac(a, w) * f_frac(b, w) + f_frac(c, w)
    if q == 0:
        # exact zero: sign is + unless both addends are -0 / negative-zero product and c is -0
        pz = f_is_zero(a, w) or f_is_zero(b, w)
        if pz and f_is_zero(c, w):
            return (1 << (w - 1)) if (sp and f_sign(c, w)) else 0
        if pz:
            return c
        return 0  # x*y + c == 0 with non-zero terms: +0 in round-to-nearest
    return round_fraction(q, w)


def sitofp(a, sw, w):
    v = S(a, sw)
    return round_fraction(Fraction(v), w)


def fpext(a, sw, w):
    if f_is_nan(a, sw):
        return NANY
    return from_py(to_py(a, sw), w)


# ----------------------------------------------------------------------------------------------- intrinsics
def _sat(v, lo, hi):
    return lo if v < lo else hi if v > hi else v


def int_intrinsic(base, args, w):
    """Integer intrinsics reachable through llvm.call_intrinsic; returns value (or tuple for structs)."""
    m = (1 << w) - 1
    a = args[0]
    if base in ("smax", "smin", "umax", "umin"):
        b = args[1]
        if base == "smax":
            return a if S(a, w) >= S(b, w) else b
        if base == "smin":
            return a if S(a, w) <= S(b, w) else b
        return max(a, b) if base == "umax" else min(a, b)
    if base == "abs":
        if S(a, w) == -(1 << (w - 1)):
            if args[1]:
                _poison("abs-int-min")
            return a
        return abs(S(a, w)) & m
    if base == "ctpop":
        return bin(a).count("1")
    if base == "ctlz":
        if a == 0:
            if args[1]:
                _poison("ctlz-zero")
            return w
        return w - a.bit_length()
    if base == "cttz":
        if a == 0:
            if args[1]:
                _poison("cttz-zero")
            return w
        return (a & -a).bit_length() - 1
    if base == "bswap":
        return int.from_bytes(a.to_bytes(w // 8, "little"), "big")
    if base == "bitreverse":
        return int(format(a, f"0{w}b")[::-1], 2)
    if base in ("fshl", "fshr"):
        b, c = args[1], args[2] % w
        cat = (a << w) | b
        if base == "fshl":
            return (cat >> (w - c)) & m if c else a
        return (cat >> c) & m
    if base == "sadd.sat":
        return _sat(S(a, w) + S(args[1], w), -(1 << (w - 1)), (1 << (w - 1)) - 1) & m
    if base == "ssub.sat":
        return _sat(S(a, w) - S(args[1], w), -(1 << (w - 1)), (1 << (w - 1)) - 1) & m
    if base == "uadd.sat":
        return min(a + args[1], m)
    if base == "usub.sat":
        return max(a - args[1], 0)
    if base.endswith(".with.overflow"):
        b = args[1]
        kind = base[:4]
        if kind[0] == "s":
            x, y = S(a, w), S(b, w)
            r = x + y if kind == "sadd" else x - y if kind == "ssub" else x * y
            ov = not (-(1 << (w - 1)) <= r < (1 << (w - 1)))
        else:
            r = a + b if kind == "uadd" else a - b if kind == "usub" else a * b
            ov = not (0 <= r <= m)
        return (r & m, int(ov))
    if base == "expect":
        return a
    raise KeyError(base)


# ----------------------------------------------------------------------------------------------- memory
class Block:
    __slots__ = ("data", "align", "live", "const", "name")

    def __init__(self, size, align, name="", const=False):
        self.data = [None] * size
        self.align = align
        self.live = True
        self.const = const
        self.name = name


def value_to_bytes(v, t, nan_id):
    """Little-endian byte cells of a first-class value (ints 0..255, or symbolic cells)."""
    if isinstance(t, IntT):
        if isinstance(v, tuple):
            if v is UNDEF:
                return [None] * store_size(t)
            return [("pint", v, i) for i in range(8)]
        return list(v.to_bytes(store_size(t), "little"))
    if isinstance(t, FloatT):
        if v is UNDEF:
            return [None] * (t.w // 8)
        if v == NANY:
            return [("nan", nan_id, i) for i in range(t.w // 8)]
        return list(v.to_bytes(t.w // 8, "little"))
    if isinstance(t, PtrT):
        if v is UNDEF:
            return [None] * 8
        if v[0] == 0:
            return list(U(v[1], 64).to_bytes(8, "little"))
        return [("ptr", v, i) for i in range(8)]
    if isinstance(t, VecT):
        if v is UNDEF:
            return [None] * store_size(t)
        if t.e.bits % 8:
            raise Excluded("unspecified:sub-byte-vector-memory")
        out = []
        for k, x in enumerate(v):
            out += value_to_bytes(x, t.e, (nan_id, k))
        return out
    if isinstance(t, ArrT):
        if v is UNDEF:
            return [None] * layout(t)[0]
        out = []
        es = layout(t.e)[0]
        for k, x in enumerate(v):
            b = value_to_bytes(x, t.e, (nan_id, k))
            out += b + [None] * (es - len(b))
        return out
    if isinstance(t, StructT):
        size = layout(t)[0]
        if v is UNDEF:
            return [None] * size
        out = [None] * size
        for k, (f, off) in enumerate(zip(t.fs, struct_offsets(t))):
            b = value_to_bytes(v[k], f, (nan_id, k))
            out[off:off + len(b)] = b
        return out
    raise TypeError(t)


def bytes_to_value(cells, t):
    if isinstance(t, (IntT, FloatT, PtrT)):
        n = store_size(t)
        cs = cells[:n]
        if any(c is None for c in cs):
            raise Excluded("undef:load-uninitialised")
        if all(isinstance(c, int) for c in cs):
            v = int.from_bytes(bytes(cs), "little")
            if isinstance(t, IntT):
                if t.w % 8:
                    raise Excluded("unspecified:odd-width-memory")
                return v
            if isinstance(t, PtrT):
                return (0, v)
            return v
        c0 = cs[0]
        if all(isinstance(c, tuple) and c[0] == c0[0] and c[1] == c0[1] and c[2] == i for i, c in enumerate(cs)):
            if c0[0] == "nan" and isinstance(t, FloatT):
                return NANY
            if c0[0] == "ptr" and isinstance(t, PtrT):
                return c0[1]
            if c0[0] == "pint" and isinstance(t, IntT) and t.w == 64:
                return c0[1]
            if c0[0] == "ptr" and isinstance(t, IntT) and t.w == 64:
                return ("pint", c0[1][0], c0[1][1])
            if c0[0] == "pint" and isinstance(t, PtrT):
                return (c0[1][1], c0[1][2])
        raise Excluded("unspecified:load-symbolic-bytes")
    if isinstance(t, VecT):
        es = t.e.bits // 8
        return tuple(bytes_to_value(cells[k * es:(k + 1) * es], t.e) for k in range(t.n))
    if isinstance(t, ArrT):
        es = layout(t.e)[0]
        return tuple(bytes_to_value(cells[k * es:(k + 1) * es], t.e) for k in range(t.n))
    if isinstance(t, StructT):
        return tuple(bytes_to_value(cells[off:off + layout(f)[0]], f) for f, off in zip(t.fs, struct_offsets(t)))
    raise TypeError(t)


def zero_of(t):
    if isinstance(t, (IntT, FloatT)):
        return 0
    if isinstance(t, PtrT):
        return (0, 0)
    if isinstance(t, (VecT, ArrT)):
        return tuple(zero_of(t.e) for _ in range(t.n))
    if isinstance(t, StructT):
        return tuple(zero_of(f) for f in t.fs)
    raise TypeError(t)


def undef_of(t):
    if isinstance(t, (VecT, ArrT)):
        return tuple(undef_of(t.e) for _ in range(t.n))
    if isinstance(t, StructT):
        return tuple(undef_of(f) for f in t.fs)
    return UNDEF


# ----------------------------------------------------------------------------------------------- machine
class Machine:
    """Interpreter over xv.c23_gen programs. One Machine per module; global memory persists between calls
    (snapshot()/restore() let the caller roll back an excluded call)."""

    STEP_LIMIT = 20000
    DEPTH_LIMIT = 12

    def __init__(self, module):
        self.mod = module
        self.funcs = {f.name: f for f in module.funcs}
        self.mem = {}
        self.next_blk = 1
        self.nan_ctr = 0
        self.gblk = {}
        self.opcount = {}
        for g in module.globals:
            size, al = layout(g.ty)
            al = g.align or al  # an explicit alignment replaces the ABI alignment (it may be smaller)
            b = Block(size, al, g.name, const=g.const)
            if g.init is not None:
                cells = value_to_bytes(g.init, g.ty, ("g", g.name))
                b.data[:len(cells)] = cells
            bid = self.next_blk
            self.next_blk += 1
            self.mem[bid] = b
            self.gblk[g.name] = bid

    def snapshot(self):
        return {k: list(self.mem[k].data) for k in self.gblk.values()}

    def restore(self, snap):
        for k, d in snap.items():
            self.mem[k].data = list(d)
        for k in [k for k in self.mem if k not in snap]:
            del self.mem[k]

    # ---- calls
    def call(self, name, args):
        self.steps = 0
        try:
            return self._call(self.funcs[name], args, 0)
        finally:
            for k in [k for k in self.mem if k not in self.gblk.values()]:
                del self.mem[k]

    def _call(self, f, args, depth):
        if depth > self.DEPTH_LIMIT:
            raise Excluded("limit:call-depth")
        if f.blocks is None:
            raise Excluded("ub:call-to-declaration")
        env = {}
        for (n, t), v in zip(f.args, args):
            env[n] = v
        frame_blocks = []
        blk = f.blocks[0]
        try:
            while True:
                for op in blk.ops:
                    self.steps += 1
                    if self.steps > self.STEP_LIMIT:
                        raise Excluded("limit:steps")
                    r = self.eval(op, env, depth, frame_blocks)
                    if op.res is not None:
                        env[op.res] = r
                t = blk.term
                self.opcount[t.k] = self.opcount.get(t.k, 0) + 1
                if t.k == "ret":
                    if t.a:
                        v = env[t.a[0]]
                        self._observe(v, "return")
                        return v
                    return None
                if t.k == "unreachable":
                    _ub("unreachable-executed")
                if t.k == "br":
                    dest, vals = t.attrs["dest"], [env[x] for x in t.a]
                else:
                    c = env[t.a[0]]
                    self._observe(c, "branch")
                    if c:
                        dest, vals = t.attrs["tdest"], [env[x] for x in t.attrs["targs"]]
                    else:
                        dest, vals = t.attrs["fdest"], [env[x] for x in t.attrs["fargs"]]
                blk = f.block_by_label[dest]
                self.steps += 1
                if self.steps > self.STEP_LIMIT:
                    raise Excluded("limit:steps")
                for (n, _t), v in zip(blk.args, vals):
                    env[n] = v
        finally:
            for b in frame_blocks:
                if b in self.mem:
                    self.mem[b].live = False

    def _observe(self, v, what):
        if v is UNDEF:
            raise Excluded("undef:" + what)

    # ---- memory
    def _access(self, p, t, align, write):
        if p is UNDEF:
            raise Excluded("undef:pointer")
        blk, off = p
        if blk == 0 or isinstance(blk, str) or blk not in self.mem:
            _ub("access-non-object")
        b = self.mem[blk]
        if not b.live:
            _ub("access-dead-alloca")
        n = store_size(t)
        if off < 0 or off + n > len(b.data):
            _ub("access-out-of-bounds")
        a = align or layout(t)[1]
        if off % a or a > b.align:
            _ub("access-misaligned")
        if write and b.const:
            _ub("store-to-constant")
        return b, off, n

    def load(self, p, t, align):
        b, off, n = self._access(p, t, align, False)
        return bytes_to_value(b.data[off:off + layout(t)[0] if isinstance(t, (ArrT, StructT)) else off + n], t)

    def store(self, v, p, t, align):
        b, off, n = self._access(p, t, align, True)
        self.nan_ctr += 1
        cells = value_to_bytes(v, t, self.nan_ctr)
        b.data[off:off + len(cells)] = cells

    # ---- ops
    def eval(self, op, env, depth, frame_blocks):
        k = op.k
        self.opcount[k] = self.opcount.get(k, 0) + 1
        A = op.attrs
        if k == "const":
            return A["val"]
        if k == "undef":
            return undef_of(op.ty)
        if k == "zero":
            return zero_of(op.ty)
        a = [env[x] for x in op.a]
        if k == "bin":
            return self._lift_int(lambda x, y, w: int_bin(A["op"], x, y, w, A["flags"]), op.ty, a[0], a[1])
        if k == "fbin":
            return self._lift_f(lambda x, y, w: self._fm(fbin(A["op"], self._fmi(x, w, A["fm"]), self._fmi(y, w, A["fm"]), w), w, A["fm"]),
                                op.ty, a[0], a[1])
        if k == "icmp":
            t = A["ty"]
            if isinstance(t, VecT):
                return tuple(self._icmp1(A["pred"], x, y, t.e.w) for x, y in zip(self._novec_undef(a[0]), self._novec_undef(a[1])))
            return self._icmp1(A["pred"], a[0], a[1], t.w)
        if k == "fcmp":
            self._nu(a[0]), self._nu(a[1])
            return fcmp(A["pred"], a[0], a[1], A["ty"].w)
        if k == "cast":
            return self._cast(A["op"], a[0], A["from"], op.ty, A["flags"])
        if k == "select":
            self._nu(a[0])
            return a[1] if a[0] else a[2]
        if k == "fneg":
            return self._lift_f1(lambda x, w: f_unary("fneg", x, w), op.ty, a[0])
        if k == "un_intr":
            return self._lift_f1(lambda x, w: f_unary(A["name"], x, w), op.ty, a[0])
        if k == "bin_intr":
            return self._lift_f(lambda x, y, w: f_binary_intr(A["name"], x, y, w), op.ty, a[0], a[1])
        if k == "fma":
            if isinstance(op.ty, VecT):
                return tuple(f_fma(self._nu(x), self._nu(y), self._nu(z), op.ty.e.w) for x, y, z in zip(*map(self._novec_undef, a)))
            return f_fma(self._nu(a[0]), self._nu(a[1]), self._nu(a[2]), op.ty.w)
        if k == "vreduce":
            acc = self._nu(a[0])
            w = op.ty.w
            for x in self._novec_undef(a[1]):
                acc = fbin(A["op"], acc, self._nu(x), w)
            return acc
        if k == "call_intr":
            return self._call_intr(A, a, op.ty)
        if k == "call":
            callee = self.funcs[A["callee"]]
            if callee.cconv != A["cconv"]:
                _ub("cconv-mismatch")
            n_fixed = len(callee.args)
            fm = A.get("fm")
            if fm:
                for (_n, t), x in zip(callee.args, a):
                    if isinstance(t, FloatT):
                        self._fmi(self._nu(x), t.w, fm)
            r = self._call(callee, a[:n_fixed], depth + 1)
            if fm and isinstance(callee.ret, FloatT):
                self._fmi(self._nu(r), callee.ret.w, fm)
            return r
        if k == "alloca":
            n = self._nu(a[0])
            if isinstance(n, tuple):
                raise Excluded("unspecified:alloca-size")
            size, al = layout(A["elem"])
            total = size * n
            if total > 1 << 16:
                raise Excluded("limit:alloca-size")
            bid = self.next_blk
            self.next_blk += 1
            self.mem[bid] = Block(total, A["align"] or al, "alloca")
            frame_blocks.append(bid)
            return (bid, 0)
        if k == "load":
            return self.load(a[0], op.ty, A["align"])
        if k == "store":
            self.store(a[0], a[1], A["ty"], A["align"])
            return None
        if k == "gep":
            return self._gep(a[0], A, env)
        if k == "extractvalue":
            v = a[0]
            for i in A["pos"]:
                if v is UNDEF:
                    return UNDEF
                v = v[i]
            return v
        if k == "insertvalue":
            return self._insert(a[0], a[1], A["pos"], op.ty)
        if k == "insertelement":
            idx = self._nu(a[2])
            vec = a[0]
            if idx >= op.ty.n:
                _poison("insertelement-index")
            if vec is UNDEF:
                vec = undef_of(op.ty)
            return vec[:idx] + (a[1],) + vec[idx + 1:]
        if k == "shufflevector":
            v1, v2 = a
            n = A["n"]
            if v1 is UNDEF:
                v1 = (UNDEF,) * n
            if v2 is UNDEF:
                v2 = (UNDEF,) * n
            cat = v1 + v2
            return tuple(UNDEF if i < 0 else cat[i] for i in A["mask"])
        if k == "addressof":
            s = A["sym"]
            if s in self.gblk:
                return (self.gblk[s], 0)
            return ("fn:" + s, 0)
        if k == "masked_store":
            val, p, mask = a
            t = A["ty"]
            es = t.e.bits // 8
            al = A["align"]
            self._nu(p)
            blk, off = p
            if any(self._nu(mb) for mb in mask):
                # the alignment promise covers the whole vector address
                if blk == 0 or blk not in self.mem:
                    _ub("access-non-object")
                b = self.mem[blk]
                if al and (off % al or (al > b.align)):
                    _ub("access-misaligned")
            for i, (x, mb) in enumerate(zip(val, mask)):
                if mb:
                    self.store(x, (blk, off + i * es), t.e, 1)
            return None
        if k == "asm":
            kind = A["kind"]
            if kind == "mov":
                return self._nu(a[0])
            if kind == "add":
                return U(self._nu(a[0]) + self._nu(a[1]), op.ty.w)
            if kind == "nop":
                return None
        raise KeyError(k)

    # ---- helpers
    def _nu(self, v):
        if v is UNDEF:
            raise Excluded("undef:operand")
        return v

    def _novec_undef(self, v):
        if v is UNDEF:
            raise Excluded("undef:operand")
        for x in v:
            if x is UNDEF:
                raise Excluded("undef:operand")
        return v

    def _fmi(self, x, w, fm):
        if fm:
            if "nnan" in fm and f_is_nan(x, w):
                _poison("fast-math-nnan")
            if "ninf" in fm and f_is_inf(x, w):
                _poison("fast-math-ninf")
        return x

    def _fm(self, r, w, fm):
        return self._fmi(r, w, fm)

    def _icmp1(self, pred, x, y, w):
        self._nu(x), self._nu(y)
        if isinstance(x, tuple) or isinstance(y, tuple):
            if isinstance(x, tuple) and isinstance(y, tuple) and x[1] == y[1]:
                return int(ICMP[pred](U(x[2], 64), U(y[2], 64), 64)) if pred in ("eq", "ne") else self._unspec("pint-order")
            return self._unspec("pint-compare")
        return int(ICMP[pred](x, y, w))

    def _unspec(self, why):
        raise Excluded("unspecified:" + why)

    def _lift_int(self, fn, t, x, y):
        if isinstance(t, VecT):
            return tuple(fn(p, q, t.e.w) for p, q in zip(self._novec_undef(x), self._novec_undef(y)))
        return fn(self._nu(x), self._nu(y), t.w)

    def _lift_f(self, fn, t, x, y):
        if isinstance(t, VecT):
            return tuple(fn(p, q, t.e.w) for p, q in zip(self._novec_undef(x), self._novec_undef(y)))
        return fn(self._nu(x), self._nu(y), t.w)

    def _lift_f1(self, fn, t, x):
        if isinstance(t, VecT):
            return tuple(fn(p, t.e.w) for p in self._novec_undef(x))
        return fn(self._nu(x), t.w)

    def _cast(self, op, v, ft, tt, flags):
        if isinstance(ft, VecT) and isinstance(tt, VecT) and op != "bitcast":
            return tuple(self._cast(op, x, ft.e, tt.e, flags) for x in self._novec_undef(v))
        if op == "bitcast":
            return self._bitcast(v, ft, tt)
        self._nu(v)
        if op == "trunc":
            if isinstance(v, tuple):
                self._unspec("pint-trunc")
            r = U(v, tt.w)
            if "nuw" in flags and r != v:
                _poison("trunc-nuw")
            if "nsw" in flags and S(r, tt.w) != S(v, ft.w):
                _poison("trunc-nsw")
            return r
        if op == "zext":
            if isinstance(v, tuple):
                self._unspec("pint-ext")
            if "nneg" in flags and v >> (ft.w - 1):
                _poison("zext-nneg")
            return v
        if op == "sext":
            if isinstance(v, tuple):
                self._unspec("pint-ext")
            return U(S(v, ft.w), tt.w)
        if op == "sitofp":
            if isinstance(v, tuple):
                self._unspec("pint-sitofp")
            return sitofp(v, ft.w, tt.w)
        if op == "fpext":
            return fpext(v, ft.w, tt.w)
        if op == "ptrtoint":
            blk, off = v
            if isinstance(blk, str):
                self._unspec("function-address")
            if blk == 0:
                return U(off, tt.w)
            if tt.w != 64:
                self._unspec("ptrtoint-narrow")
            return ("pint", blk, off)
        if op == "inttoptr":
            if isinstance(v, tuple):
                return (v[1], v[2])
            if ft.w > 64:
                v = U(v, 64)
            return (0, v)
        raise KeyError(op)

    def _bitcast(self, v, ft, tt):
        if isinstance(ft, PtrT):
            return v
        if isinstance(ft, VecT) and isinstance(tt, VecT) and ft.n == tt.n:
            return tuple(self._bitcast1(x, ft.e, tt.e) for x in self._novec_undef(v))
        if not isinstance(ft, VecT) and not isinstance(tt, VecT):
            return self._bitcast1(self._nu(v), ft, tt)
        return self._from_bits(self._to_bits(v, ft), tt)

    def _bitcast1(self, v, ft, tt):
        if isinstance(ft, FloatT) and v == NANY:
            if isinstance(tt, FloatT):
                return NANY
            raise Excluded("unspecified:nan-bits-observed")
        if isinstance(v, tuple):
            raise Excluded("unspecified:symbolic-bits")
        return v

    def _to_bits(self, v, t):
        if v is UNDEF:
            raise Excluded("undef:bitcast")
        if isinstance(t, VecT):
            acc = 0
            for k, x in enumerate(v):
                acc |= self._to_bits(x, t.e) << (k * t.e.bits)
            return acc
        if isinstance(t, FloatT) and v == NANY:
            raise Excluded("unspecified:nan-bits-observed")
        if isinstance(v, tuple):
            raise Excluded("unspecified:symbolic-bits")
        return v

    def _from_bits(self, b, t):
        if isinstance(t, VecT):
            m = (1 << t.e.bits) - 1
            return tuple((b >> (k * t.e.bits)) & m for k in range(t.n))
        return b

    def _gep(self, p, A, env):
        self._nu(p)
        blk, off = p
        t = A["elem"]
        first = True
        for ix in A["idx"]:
            if isinstance(ix, str):
                v, w = env[ix], A["idxw"][ix]
                self._nu(v)
                if isinstance(v, tuple):
                    self._unspec("pint-index")
                i = S(v, w)
            else:
                i = ix
            if first:
                off += i * layout(t)[0]
                first = False
            elif isinstance(t, ArrT):
                off += i * layout(t.e)[0]
                t = t.e
            elif isinstance(t, StructT):
                off += struct_offsets(t)[i]
                t = t.fs[i]
            else:
                raise TypeError("gep into scalar")
        if A["inbounds"]:
            if blk == 0 or isinstance(blk, str) or blk not in self.mem:
                if off != p[1] or blk != 0:
                    _poison("gep-inbounds-non-object")
            else:
                b = self.mem[blk]
                if not (0 <= off <= len(b.data)) or not (0 <= p[1] <= len(b.data)):
                    _poison("gep-inbounds-out-of-object")
        return (blk, off)

    def _insert(self, cont, val, pos, t):
        if cont is UNDEF:
            cont = undef_of(t)
        i = pos[0]
        sub_t = t.e if isinstance(t, ArrT) else t.fs[i]
        new = val if len(pos) == 1 else self._insert(cont[i], val, pos[1:], sub_t)
        return cont[:i] + (new,) + cont[i + 1:]

    def _call_intr(self, A, a, rty):
        base, ety = A["base"], A["ety"]
        if base == "donothing":
            return None
        if isinstance(ety, FloatT):
            w = ety.w
            for x in a:
                self._nu(x)
            if base == "fma":
                return f_fma(a[0], a[1], a[2], w)
            if len(a) == 1:
                return f_unary(base, a[0], w)
            return f_binary_intr(base, a[0], a[1], w)
        for x in a:
            self._nu(x)
            if isinstance(x, tuple):
                self._unspec("pint-intrinsic")
        return int_intrinsic(base, a, ety.w)


def same_result(ref, got_bits, t):
    """Compare a reference return value with the raw 64-bit pattern observed from the JIT."""
    if isinstance(t, IntT):
        return U(got_bits, t.w) == ref
    if isinstance(t, FloatT):
        g = U(got_bits, t.w)
        if ref == NANY:
            return f_is_nan(g, t.w)
        return g == ref
    raise TypeError(t)
