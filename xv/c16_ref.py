"""c16_ref - C16's extension of the shared reference semantics (xv.refsem), kept in a subclass so the shared
module stays untouched: affine.if / affine.min, scf.index_switch, cf.switch, undeclared-symbol handling, plus
*observation hooks* used by the C16 classifiers (which op raised Undefined, which trapping ops were executed,
dynamic loop-nest shapes, bounds that wrapped, negative affine mod operands, switch arguments outside i32).
Nothing of xDSL's interpreters/folders is used: ops are dispatched on their names."""
from __future__ import annotations

from xv import refsem
from xv.refsem import INDEX_W, POISON, S, U, Undefined, Unsupported, StepLimit, observe  # noqa: F401

TRAP_OPS = ("arith.divui", "arith.divsi", "arith.remui", "arith.remsi", "arith.floordivsi", "arith.ceildivsi",
            "arith.ceildivui")
I64_MIN, I64_MAX = -(1 << 63), (1 << 63) - 1


def _ceildiv(a, b):
    return -((-a) // b)


def affine_eval_flag(e, dims, syms, flags, trunc=False):
    """Own affine evaluation (floor semantics, like refsem.affine_eval) that additionally flags a `mod` whose
    left operand is negative with a non-zero remainder (the case in which a truncating remainder differs)."""
    n = type(e).__name__
    if n == "AffineConstantExpr":
        return e.value
    if n == "AffineDimExpr":
        return dims[e.position]
    if n == "AffineSymExpr":
        return syms[e.position]
    if n == "AffineBinaryOpExpr":
        a, b = affine_eval_flag(e.lhs, dims, syms, flags, trunc), affine_eval_flag(e.rhs, dims, syms, flags, trunc)
        k = e.kind.name
        if k in ("Add", "Mul"):
            r = a + b if k == "Add" else a * b
            if trunc:  # the wrong-behaviour model mirrors the lowered code: wrapping index arithmetic
                return S(U(r, INDEX_W), INDEX_W)
            if not (I64_MIN <= r <= I64_MAX):
                # affine maps denote mathematical integer functions; a value that does not fit `index` is outside
                # the modelled semantics (a lowering to wrapping arithmetic may legitimately differ)
                raise Undefined("affine intermediate value overflows index")
            return r
        if b <= 0:
            raise Undefined("affine div/mod by non-positive")
        if k == "Mod":
            if a < 0 and a % b != 0:
                flags.add("affine-mod-negative-lhs")
                if trunc:  # KNOWN-WRONG MODEL of lower-affine: `mod` as a truncating signed remainder
                    return a % b - b
            return a % b
        if k == "FloorDiv":
            return a // b
        if k == "CeilDiv":
            return _ceildiv(a, b)
    raise Unsupported(f"affine expr {n}")


def _hint(op):
    return op.results[0].name_hint if op.results else None


class M16(refsem.Machine):
    def __init__(self, module, step_limit=200000):
        super().__init__(module, step_limit)
        self.flags: set[str] = set()
        self.fault = None          # (op, {operand index: value}) of the innermost op that raised Undefined
        self.fault_env = None
        self.trap_executed: set = set()   # (op name, result name hint) of executed trapping-capable ops
        self.for_execs = 0
        self.implicit_syms = frozenset()
        self.mod_trunc = False     # evaluate affine `mod` as arith.remsi would (wrong-behaviour model, classifier only)

    # ------------------------------------------------------------------ hooks
    def _flag_perfect_nest(self, op, env):
        """Source-side observation for the flatten classifier: dynamic shape of a perfect 2-nest, evaluated with
        the guards of the unchanged pass; sets a flag when the *known wrong model* of the pass predicts a
        different iteration sequence than the source semantics."""
        blk = op.regions[0].blocks[0]
        inner = blk.first_op
        if inner is None or inner.name != "scf.for" or inner.next_op is None or inner.next_op is not blk.last_op:
            return
        def is_const(v):
            return getattr(v.owner, "name", None) == "arith.constant"

        # static guards of the unchanged pass: inner lb/ub/step and outer step must be constants
        if not (all(is_const(o) for o in inner.operands[:3]) and is_const(op.operands[2])):
            return
        try:
            ov = [env[o] for o in op.operands[:3]]
            iv = [env[o] for o in inner.operands[:3]]
        except KeyError:
            return
        if any(v is POISON for v in ov + iv):
            return
        olb, oub, ost = (S(v, INDEX_W) for v in ov)
        ilb, iub, ist = (S(v, INDEX_W) for v in iv)
        if ost <= 0 or ist <= 0:
            return
        oiv, iiv = blk.args[0], inner.regions[0].blocks[0].args[0]
        used = bool(list(oiv.uses)) or bool(list(iiv.uses))
        if used:
            if ilb == 0 and iub == ost and ost % ist == 0:
                src = [i + j for i in range(olb, min(oub, olb + 64 * ost), ost) for j in range(0, ost, ist)]
                tgt = list(range(olb, min(oub, olb + 64 * ost), ist))
                if src != tgt:
                    self.flags.add("flatten-iv-sum-range-not-multiple")
        else:
            if olb == 0 and is_const(op.operands[0]):
                floor_f = (iub - ilb) // ist
                trip = max(0, _ceildiv(iub - ilb, ist))
                # (floor factor = unchanged pass; trip count = the pass with the proposed factor fix)
                if not (I64_MIN <= oub * floor_f <= I64_MAX and I64_MIN <= oub * trip <= I64_MAX):
                    self.flags.add("flatten-ub-times-factor-overflow")
                src = max(0, _ceildiv(oub, ost)) * trip
                tgt = max(0, _ceildiv(oub * floor_f, ost))
                if src != tgt:
                    self.flags.add("flatten-floor-factor" if floor_f != trip else "flatten-outer-step-ignored")

    def _exact(self, v, env, depth=0):
        """Exact (unwrapped) signed value of a pass-inserted addi/muli chain feeding a loop bound; returns
        (exact, wrapped_somewhere, nonpositive_mul_factor)."""
        val = env.get(v)
        if val is None or val is POISON:
            return None, False, False
        sv = S(val, INDEX_W)
        o = v.owner
        if depth > 6 or not hasattr(o, "results") or o.name not in ("arith.addi", "arith.muli") or \
                v.name_hint is not None:
            return sv, False, False
        a, wa, na = self._exact(o.operands[0], env, depth + 1)
        b, wb, nb = self._exact(o.operands[1], env, depth + 1)
        if a is None or b is None:
            return sv, wa or wb, na or nb
        ex = a + b if o.name == "arith.addi" else a * b
        nonpos = na or nb
        if o.name == "arith.muli":
            fb = env.get(o.operands[1])
            if fb is not None and fb is not POISON and S(fb, INDEX_W) <= 0:
                nonpos = True
        return ex, wa or wb or not (I64_MIN <= ex <= I64_MAX), nonpos

    def _flag_folded_bounds(self, op, env):
        for o in op.operands[:3]:
            _, wrapped, nonpos = self._exact(o, env)
            if nonpos:
                self.flags.add("fold-nonpositive-factor")
            if wrapped:
                self.flags.add("fold-bound-overflow")

    # ------------------------------------------------------------------ dispatch
    def run_op(self, op, env):  # noqa: C901
        n = op.name
        try:
            if n in TRAP_OPS:
                self.trap_executed.add((n, _hint(op)))
                a, b = env[op.operands[0]], env[op.operands[1]]
                if a is POISON and b is not POISON:
                    # LLVM semantics: a poison dividend gives a poison quotient/remainder; only the divisor decides
                    # whether the operation traps (0 always; -1 for the signed forms since poison may be INT_MIN).
                    w = refsem.width(op.results[0].type)
                    signed = n in ("arith.divsi", "arith.remsi", "arith.floordivsi", "arith.ceildivsi")
                    if b == 0:
                        raise Undefined("division by zero")
                    if signed and S(b, w) == -1:
                        raise Undefined("signed division overflow")
                    env[op.results[0]] = POISON
                    return None
            elif n == "scf.for":
                self.for_execs += 1
                self._flag_perfect_nest(op, env)
                self._flag_folded_bounds(op, env)
            elif n in ("affine.apply", "affine.load", "affine.store"):
                k = {"affine.apply": 0, "affine.load": 1, "affine.store": 2}[n]
                m = self._prop(op, "map").data
                vals = self._idx_vals([env[o] for o in op.operands[k:]])
                rs = [affine_eval_flag(e, vals[:m.num_dims], vals[m.num_dims:], self.flags, self.mod_trunc)
                      for e in m.results]
                if self.mod_trunc:
                    if n == "affine.apply":
                        env[op.results[0]] = U(rs[0], INDEX_W)
                        return None
                    h, shape = env[op.operands[k - 1]]
                    if n == "affine.load":
                        # the lowering drops loads whose result is unused, so an out-of-bounds load only matters
                        # when its value is observed: model it as poison
                        try:
                            env[op.results[0]] = self.mem[h][self._lin(shape, [U(r, INDEX_W) for r in rs])]
                        except Undefined:
                            self.flags.add("model-oob-load")
                            env[op.results[0]] = POISON
                        return None
                    lin = self._lin(shape, [U(r, INDEX_W) for r in rs])
                    if n == "affine.load":
                        env[op.results[0]] = self.mem[h][lin]
                    else:
                        v = env[op.operands[0]]
                        self.mem[h][lin] = v
                        if h[0] == "arg":
                            self.log.append(("store", h, lin, observe(v)))
                    return None
            elif n == "affine.min":
                m = self._prop(op, "map").data
                vals = self._idx_vals([env[o] for o in op.operands])
                r = min(affine_eval_flag(e, vals[:m.num_dims], vals[m.num_dims:], self.flags) for e in m.results)
                env[op.results[0]] = U(r, INDEX_W)
                return None
            elif n == "affine.if":
                cs = self._prop(op, "condition").data
                vals = self._idx_vals([env[o] for o in op.operands])
                dims, syms = vals[:cs.num_dims], vals[cs.num_dims:]
                ok = True
                for c in cs.constraints:
                    d = affine_eval_flag(c.lhs, dims, syms, self.flags) - affine_eval_flag(c.rhs, dims, syms, self.flags)
                    kind = c.kind.name
                    ok = ok and (d >= 0 if kind == "ge" else d <= 0 if kind == "le" else d == 0)
                reg = op.regions[0] if ok else op.regions[1]
                if not reg.blocks:
                    if op.results:
                        raise Unsupported("affine.if with results and empty region")
                    return None
                _, vals2 = self.run_region(reg, [], env)
                if len(vals2) != len(op.results):
                    raise Unsupported("affine.if result count")
                for r, x in zip(op.results, vals2):
                    env[r] = x
                return None
            elif n == "scf.index_switch":
                a = env[op.operands[0]]
                if a is POISON:
                    raise Undefined("switch on poison")
                sa = S(a, INDEX_W)
                cases = list(self._prop(op, "cases").iter_values())
                ta = S(U(sa, 32), 32)  # what a lowering through an i32 flag would compare
                if (cases.index(sa) if sa in cases else -1) != (cases.index(ta) if ta in cases else -1):
                    self.flags.add("index-switch-arg-outside-i32")
                reg = op.regions[0]
                for cv, r in zip(cases, op.regions[1:]):
                    if cv == sa:
                        reg = r
                        break
                _, vals2 = self.run_region(reg, [], env)
                if len(vals2) != len(op.results):
                    raise Unsupported("index_switch result count")
                for r, x in zip(op.results, vals2):
                    env[r] = x
                return None
            elif n == "cf.switch":
                f = env[op.operands[0]]
                if f is POISON:
                    raise Undefined("switch on poison")
                w = refsem.width(op.operands[0].type)
                seg = list(self._prop(op, "operandSegmentSizes").get_values())
                cseg = list(self._prop(op, "case_operand_segments").get_values())
                dflt = [env[o] for o in op.operands[1:1 + seg[1]]]
                rest = list(op.operands[1 + seg[1]:])
                cv = self._prop(op, "case_values") if "case_values" in op.properties else None
                cvals = list(cv.get_values()) if cv is not None else []
                pos = 0
                for k, c in enumerate(cvals):
                    cnt = cseg[k] if k < len(cseg) else 0
                    if U(c, w) == f:
                        return ("__br__", op.successors[1 + k], [env[o] for o in rest[pos:pos + cnt]])
                    pos += cnt
                return ("__br__", op.successors[0], dflt)
            elif n in ("symref.fetch", "symref.update"):
                name = self._prop(op, "symbol").root_reference.data
                if name not in self.symref:
                    if name in self.implicit_syms:
                        # a symbol the SOURCE module never declares (it belongs to an enclosing scope the pass does
                        # not see): an implicitly declared cell with a deterministic initial value
                        t = op.results[0].type if op.results else op.operands[0].type
                        self.symref[name] = self._opaque(t, ("outer-symbol", name), 0)
                    else:
                        raise Undefined("use of undeclared symbol")
            return super().run_op(op, env)
        except Undefined:
            if self.fault is None:
                self.fault = op
                self.fault_env = env
            raise


def run16(module, fname, args, step_limit=200000, mod_trunc=False, implicit_syms=frozenset()):
    """Like refsem.run but on M16; returns (outcome, machine) with outcome =
    ("ok", results, log) | ("undef", msg) | ("unsup", msg) | ("steps",) | ("badir", msg)."""
    m = M16(module, step_limit)
    m.mod_trunc = mod_trunc
    m.implicit_syms = implicit_syms
    real, margs = [], []
    for k, a in enumerate(args):
        if isinstance(a, (tuple, list)) and a and a[0] == "memref":
            h = ("arg", k)
            m.mem[h] = list(a[2])
            real.append((h, tuple(a[1])))
            margs.append(h)
        else:
            real.append(a)
    try:
        vals = m.call(fname, real)
        out = [observe(v) for v in vals]
        for h in margs:
            out.append(("mem", tuple("poison" if x is POISON else observe(x) for x in m.mem[h])))
        return ("ok", out, list(m.log)), m
    except Undefined as e:
        return ("undef", str(e)), m
    except Unsupported as e:
        return ("unsup", str(e)), m
    except StepLimit:
        return ("steps",), m
    except KeyError as e:
        k = e.args[0] if e.args else None
        if hasattr(k, "uses") and hasattr(k, "type"):
            # an operand that no executed op / block defined: the IR uses a value that does not dominate its use
            return ("badir", f"use of a value that is not defined on this path: {k}"[:200]), m
        raise
