"""Generators owned by C04: (1) name hints drawn from the regular expression the `name_hint` setter accepts,
(2) small generic IR modules built through the public constructors (test dialect, unregistered ops, nested
IsolatedFromAbove modules/functions, multi-block CFG regions, forward references, registered ops carrying
properties equal to their declared defaults, inherent attributes placed in the attribute dictionary).

Everything derives from a `random.Random`; no iteration over sets / hashes, so a (seed, index) pair always
yields the same module whatever PYTHONHASHSEED is."""
from __future__ import annotations

import re

# --------------------------------------------------------------------------- name hints
# xdsl/ir/core.py: _VALUE_NAME_PATTERN = ([A-Za-z_$.-][\w$.-]*)  (fullmatch, \w Unicode-aware)
FIRST = "abcxyzABZ_$.-"
REST_ASCII = "abcxyz019_$.-AZ"
NON_ASCII_W = ["é", "ß", "λ", "ж", "中", "ａ", "²", "١", "९", "ǅ", "ª", "ⅷ", "𝐱", "ı"]  # all match \w
NEAR = ["a", "a_1", "a_1_2", "a_1_2_3", "a_2", "a_01", "a_", "a__1", "a_1_", "a1", "a.1", "a-1", "a$1",
        "_1", "__1", "_", "_a", "a_b_1", "a_1b", "A", "a_10", "a_1_10", "x", "x_0", "x_0_0", "arg0", "arg_0",
        "0a"[1:], "c0", "cst", "cst_0", "-1", "-", ".", "$", "..", "-_-", "$$", "a.b", "a-b", "a-", "a.", "a$",
        "-a", ".a", "$a", "e1", "x1e5", "inf", "nan", "true", "loc", "bb", "bb3", "bb0", "bb1", "bb2", "bb_3",
        "bb03", "bb1_1", "bbx", "b"]
BLOCK_NEAR = ["bb0", "bb1", "bb2", "bb3", "bb4", "bb", "bb_1", "bb1_2", "entry", "exit", "a", "a_1_2", "loop.body"]
REJECTED = ["", "0", "1a", "a b", "a,b", "%a", "a:b", "a#1", "a\n", "a>", "(", "9_", "é"[:0] + "+", " a", "a "]

_SUFFIX = re.compile(r"(_\d+)$")


def gen_hint(rng, for_block=False):
    """One string accepted by the `name_hint` setter (may be stripped to '' by it, which means 'no hint')."""
    p = rng.random()
    if p < 0.42:
        return rng.choice(BLOCK_NEAR if for_block and rng.random() < 0.6 else NEAR)
    if p < 0.52:
        base = rng.choice(["a", "x", "arg", "v"])
        return base + rng.choice(["", "_1", "_1_2", "_2_1", "_0", "_00", "_1_1_1"])
    if p < 0.64:
        h = rng.choice(FIRST) if rng.random() < 0.6 else ""
        h += rng.choice(NON_ASCII_W)
        for _ in range(rng.randrange(0, 3)):
            h += rng.choice(REST_ASCII + "".join(NON_ASCII_W[:6]))
        if not re.match(r"[A-Za-z_$.-]", h):
            h = rng.choice("a_$.-") + h
        return h
    n = rng.choice([0, 0, 1, 1, 2, 3, 5, 9])
    return rng.choice(FIRST) + "".join(rng.choice(REST_ASCII) for _ in range(n))


def hint_classes(raw: str | None, is_block: bool) -> set[str]:
    """Classes of a *stored* hint (value of .name_hint after the setter) that the known defects depend on."""
    out = set()
    if raw is None:
        return out
    if raw == "":
        out.add("stripped-to-empty")
        return out
    if not raw.isascii():
        out.add("non-ascii")
    if _SUFFIX.search(raw):
        out.add("suffix-retained")
    if is_block:
        out.add("block-hint")
        if raw.startswith("bb") and raw[2:].isdigit():
            out.add("block-default-name")
    return out


def sanitise_hint(raw: str, cls: str, is_block: bool) -> str | None:
    """A hint with the same 'shape' but outside class `cls`."""
    if cls == "stripped-to-empty":
        return None
    if cls == "non-ascii":
        s = "".join(c if c.isascii() else "u" for c in raw)
        return s
    if cls == "suffix-retained":
        s = raw
        while _SUFFIX.search(s):
            s = s[:_SUFFIX.search(s).start()]
        return s or None
    if cls == "block-default-name":
        return "blk" + raw[2:] if is_block else raw
    if cls == "block-hint":
        return None if is_block else raw
    raise ValueError(cls)


def named_objects(root):
    """[(object, is_block)] for every value and block under `root` (results of root included)."""
    out = []
    for op in root.walk():
        for r in op.results:
            out.append((r, False))
        for reg in op.regions:
            for b in reg.blocks:
                out.append((b, True))
                for a in b.args:
                    out.append((a, False))
    return out


RISKY = ["non-ascii", "stripped-to-empty", "suffix-retained", "block-default-name", "block-hint"]


def assign_hints(rng, root, density=0.7, allowed=None):
    """Give arbitrary accepted hints to values and blocks through the public setter. `allowed` = set of risky hint
    classes (see hint_classes) this module may contain; hints falling in another risky class are replaced by
    their neutral counterpart (again through the setter). Returns counters."""
    c = {"hints_set": 0, "hints_rejected_by_setter": 0, "hints_stripped_to_empty": 0}
    allowed = set(RISKY) if allowed is None else set(allowed)
    shared = [gen_hint(rng) for _ in range(3)]  # repeated hints inside one module -> printer must disambiguate
    for obj, is_block in named_objects(root):
        if rng.random() > density:
            continue
        if rng.random() < 0.05:
            bad = rng.choice(REJECTED)
            try:
                obj.name_hint = bad
            except ValueError:
                c["hints_rejected_by_setter"] += 1
                continue
            # accepted although we expected rejection: keep it, it is an accepted hint by definition
        h = rng.choice(shared) if rng.random() < 0.35 else gen_hint(rng, for_block=is_block)
        try:
            obj.name_hint = h
        except ValueError:
            c["hints_rejected_by_setter"] += 1
            continue
        for _ in range(4):
            bad_cls = [k for k in RISKY if k in hint_classes(obj.name_hint, is_block) and k not in allowed]
            if not bad_cls:
                break
            obj.name_hint = sanitise_hint(obj.name_hint, bad_cls[0], is_block)
        if obj.name_hint:
            c["hints_set"] += 1
        elif obj.name_hint == "":
            c["hints_stripped_to_empty"] += 1
    return c


# --------------------------------------------------------------------------- generic IR modules
ATTR_KEYS = ["a", "b", "value", "sym", "foo.bar", "with space", "0lead", "x$y", "_u", "A.b_c", "ü", "q\"uote", ""]


class IRGen:
    def __init__(self, rng, max_depth=3):
        self.rng = rng
        self.max_depth = max_depth
        self.features: set[str] = set()
        self._mk()

    def _mk(self):
        from xdsl.dialects import builtin as b
        self.b = b
        self.types = [b.i1, b.i32, b.i64, b.IndexType(), b.Float32Type(), b.Float64Type(), b.IntegerType(7),
                      b.IntegerType(8, b.Signedness.UNSIGNED), b.TensorType(b.Float32Type(), [2, 3]),
                      b.MemRefType(b.i32, [4]), b.VectorType(b.i64, [2]), b.FunctionType.from_lists([b.i32], [b.i32]),
                      b.TupleType([b.i32, b.IndexType()]), b.NoneType(), b.ComplexType(b.Float32Type()),
                      b.TensorType(b.i8, [b.DYNAMIC_INDEX, 2]), b.UnrankedTensorType(b.Float64Type())]

    # -- attributes (finite floats only: the non-finite / hex float literal family belongs to C06)
    def attr(self, depth=0):
        b, r = self.b, self.rng
        k = r.randrange(16 if depth < 2 else 11)
        if k == 0:
            return b.IntegerAttr(r.choice([0, 1, -1, 42, 2 ** 31 - 1, -2 ** 31, 7]), r.choice([b.i32, b.i64, b.IndexType()]))
        if k == 1:
            return b.IntegerAttr(r.choice([0, 1]), b.i1)
        if k == 2:
            return b.FloatAttr(r.choice([0.0, 1.0, -2.5, 1e-3, 3.141592653589793, 1e10, 0.1]), r.choice([b.Float32Type(), b.Float64Type()]))
        if k == 3:
            return b.StringAttr(r.choice(["", "x", "hello world", "q\"t", "back\\slash", "tab\tnl\n", "a.b"]))
        if k == 4:
            return b.UnitAttr()
        if k == 5:
            return r.choice(self.types)
        if k == 6:
            return b.SymbolRefAttr(r.choice(["f", "g.h", "with space"]), [] if r.random() < .7 else ["inner"])
        if k == 7:
            return b.DenseArrayBase.from_list(r.choice([b.i32, b.i64, b.i8]), [r.randrange(-3, 100) for _ in range(r.randrange(0, 4))])
        if k == 8:
            return b.DenseIntOrFPElementsAttr.from_list(b.TensorType(b.i32, [3]), [r.randrange(-5, 5) for _ in range(3)])
        if k == 9:
            return b.DenseIntOrFPElementsAttr.from_list(b.TensorType(b.Float32Type(), [2]), [r.choice([0.5, 1.0, -2.0]), r.choice([0.25, 3.0])])
        if k == 10:
            return b.AffineMapAttr(r.choice([self._amap("(d0, d1) -> (d1, d0)"), self._amap("(d0)[s0] -> (d0 + s0)"), self._amap("() -> ()")]))
        if k in (11, 12):
            return b.ArrayAttr([self.attr(depth + 1) for _ in range(r.randrange(0, 3))])
        if k == 13:
            return b.DictionaryAttr({r.choice(ATTR_KEYS[:8]) or "k": self.attr(depth + 1) for _ in range(r.randrange(0, 3))})
        if k == 14:
            return b.IntegerAttr(r.choice([0, 255, 17]), b.IntegerType(8, b.Signedness.UNSIGNED))
        return b.BoolAttr.from_bool(r.random() < .5) if hasattr(b.BoolAttr, "from_bool") else b.IntegerAttr(1, b.i1)

    def _amap(self, s):
        from xdsl.parser import Parser
        from xdsl.context import Context
        return Parser(Context(), s).parse_affine_map()

    def attr_dict(self, n_max=3):
        r = self.rng
        d = {}
        for _ in range(r.randrange(0, n_max + 1)):
            key = r.choice(ATTR_KEYS)
            if key == "":
                self.features.add("empty-attr-key")
            d[key] = self.attr()
        return d

    # -- ops
    def ops_into(self, block, avail, depth, n, later=None):
        """Append `n` random ops to `block`; `avail` = values usable as operands (dominating)."""
        from xdsl.dialects import test
        r, b = self.rng, self.b
        avail = list(avail)
        for _ in range(n):
            k = r.random()
            operands = [r.choice(avail) for _ in range(r.randrange(0, 3))] if avail else []
            rtypes = [r.choice(self.types) for _ in range(r.choice([0, 1, 1, 1, 2, 3]))]
            regions = []
            if depth < self.max_depth and r.random() < 0.3:
                regions = [self.region(avail, depth + 1) for _ in range(r.choice([1, 1, 2]))]
            if k < 0.45:
                props = {}
                for pn in ("prop1", "prop2", "prop3"):
                    if r.random() < .25:
                        props[pn] = self.attr()
                op = test.TestOp.create(operands=operands, result_types=rtypes, properties=props,
                                        attributes=self.attr_dict(), regions=regions)
            elif k < 0.62:
                self.features.add("unregistered-op")
                name = r.choice(["unreg.op", "foo.bar", "x.y.z", "builtin.not_there", "nodialect"])
                props = {kk: self.attr() for kk in r.sample(["p", "q", "value"], r.randrange(0, 3))}
                op = b.UnregisteredOp.with_name(name).create(operands=operands, result_types=rtypes, properties=props,
                                                             attributes=self.attr_dict(), regions=regions)
            elif k < 0.70 and depth < self.max_depth:
                self.features.add("nested-isolated-module")
                inner = b.ModuleOp([], attributes=self.attr_dict(1))
                self.ops_into(inner.body.block, [], depth + 1, r.randrange(0, 4))
                if r.random() < .3:
                    inner.properties["sym_name"] = b.StringAttr(r.choice(["m", "inner mod"]) + str(r.randrange(10 ** 6)))
                op = inner
            elif k < 0.80 and depth < self.max_depth:
                op = self.func(depth)
            elif k < 0.90:
                group = self.default_prop_op(avail)
                for o in group[:-1]:
                    block.add_op(o)
                    avail.extend(o.results)
                op = group[-1]
            else:
                self.features.add("symbol-op")
                op = test.TestSymbolOp.create(operands=operands, result_types=rtypes, regions=regions,
                                              properties={"sym_name": b.StringAttr(r.choice(["s", "s t", "s.1"]) + str(len(avail)) + "." + str(depth) + str(r.randrange(10 ** 6)))})
            block.add_op(op)
            avail.extend(op.results)
        return avail

    def func(self, depth):
        from xdsl.dialects import func
        r, b = self.rng, self.b
        self.features.add("nested-isolated-func")
        ins = [r.choice(self.types[:8]) for _ in range(r.randrange(0, 3))]
        blk = b.Block(arg_types=ins)
        avail = self.ops_into(blk, list(blk.args), depth + 1, r.randrange(0, 3))
        outs = [v for v in (r.sample(avail, min(len(avail), r.randrange(0, 3))) if avail else [])]
        blk.add_op(func.ReturnOp(*outs))
        self._sym = getattr(self, "_sym", 0) + 1
        f = func.FuncOp(r.choice(["f", "g", "main", "with space"]) + str(self._sym), (ins, [o.type for o in outs]), b.Region(blk),
                        visibility=r.choice([None, "private", "public"]))
        if r.random() < .3:
            # inherent attribute supplied through the attribute dictionary (normalisation rule 2 of C04)
            self.features.add("inherent-attr-in-dict")
            f.attributes["sym_visibility"] = f.properties.pop("sym_visibility", None) or b.StringAttr("private")
        return f

    def default_prop_op(self, avail):
        """Registered ops that declare default-valued properties, with the property absent (the constructor then
        fills the default in) / explicitly equal to the default / non-default. Returns the list of ops to add."""
        from xdsl.dialects import arith, memref
        r, b = self.rng, self.b
        mode = r.choice(["absent", "default", "nondefault"])
        self.features.add("default-prop:" + mode)
        k = r.randrange(3)
        if k == 0:
            T = r.choice([b.i32, b.i64])
            c = arith.ConstantOp(b.IntegerAttr(r.randrange(10), T))
            props = {}
            if mode == "default":
                props["overflowFlags"] = arith.IntegerOverflowAttr("none")
            elif mode == "nondefault":
                props["overflowFlags"] = arith.IntegerOverflowAttr([arith.IntegerOverflowFlag.NSW])
            return [c, arith.AddiOp.create(operands=[c.result, c.result], result_types=[T], properties=props)]
        if k == 1:
            props = {"fastmath": arith.FastMathFlagsAttr("none" if mode != "nondefault" else "fast")} if mode != "absent" else {}
            c = arith.ConstantOp(b.FloatAttr(1.5, b.Float32Type()))
            return [c, arith.AddfOp.create(operands=[c.result, c.result], result_types=[b.Float32Type()], properties=props)]
        t = memref.AllocOp.get(b.i32, None, [4])
        i = arith.ConstantOp(b.IntegerAttr(0, b.IndexType()))
        props = {}
        if mode == "default":
            props["nontemporal"] = b.IntegerAttr(0, b.i1)
        elif mode == "nondefault":
            props["nontemporal"] = b.IntegerAttr(1, b.i1)
        return [t, i, memref.LoadOp.create(operands=[t.memref, i.result], result_types=[b.i32], properties=props)]

    def region(self, outer_avail, depth):
        from xdsl.dialects import test
        r, b = self.rng, self.b
        nblocks = r.choice([1, 1, 1, 2, 3, 4])
        blocks = [b.Block(arg_types=[r.choice(self.types) for _ in range(r.randrange(0, 3))]) for _ in range(nblocks)]
        reg = b.Region(blocks)
        if nblocks > 1:
            self.features.add("multi-block-cfg")
        for bi, blk in enumerate(blocks):
            avail = list(outer_avail) + list(blk.args)
            # values of the entry block dominate every other block of the region
            if bi > 0:
                avail += [res for o in blocks[0].ops for res in o.results]
            self.ops_into(blk, avail, depth, r.randrange(0, 4))
            succ = []
            if nblocks > 1:
                succ = [r.choice(blocks[1:]) for _ in range(r.choice([0, 1, 2, 2, 3, 4]))] if bi < nblocks - 1 else \
                    ([r.choice(blocks[1:])] if r.random() < .3 else [])
                # later blocks referenced before their definition
                if bi == 0 and nblocks > 2 and r.random() < .5:
                    succ = [blocks[-1], blocks[1]]
                    self.features.add("forward-block-ref")
            blk.add_op(test.TestTermOp.create(successors=succ, operands=[v for v in avail[:1]],
                                              attributes=self.attr_dict(1)))
        # graph-region style forward reference: an op of the first block uses a value defined later in it
        if r.random() < .25:
            ops = [o for o in blocks[0].ops]
            producers = [o for o in ops[1:] if o.results]
            if producers and isinstance(ops[0], (test.TestOp, b.UnregisteredOp)):
                ops[0].operands = list(ops[0].operands) + [producers[-1].results[0]]
                self.features.add("forward-value-ref")
        return reg

    def module(self):
        b, r = self.b, self.rng
        m = b.ModuleOp([], attributes=self.attr_dict(1) if r.random() < .2 else {})
        self.ops_into(m.body.block, [], 0, r.randrange(1, 7))
        return m


def gen_module(rng, hint_density=0.7):
    """(module, counters, features). The module is verified by the caller.
    60% of the modules carry only hints outside the classes with known defects (still hostile: punctuation,
    digits, near-collisions a / a_1 / a_2, repeated hints); the others enable each risky class with p=1/2."""
    g = IRGen(rng, max_depth=rng.choice([1, 2, 3]))
    m = g.module()
    if rng.random() < 0.6:
        allowed = set()
    else:
        allowed = {k for k in RISKY if rng.random() < 0.5}
        g.features.add("risky-hint-profile")
    if rng.random() < 0.9:
        # non-ASCII attribute dictionary keys are their own (string literal) mechanism: keep them rare
        for op in m.walk():
            for k in [k for k in op.attributes if not k.isascii()]:
                op.attributes["k" + str(len(k))] = op.attributes.pop(k)
    c = assign_hints(rng, m, density=hint_density, allowed=allowed)
    return m, c, g.features
