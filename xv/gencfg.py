"""gencfg - random multi-block `cf` programs (text), executable by xv.refsem, for passes that rewrite CFGs.

`gen_cfg_func(rng, name="main") -> (text, argtypes, rettypes)` builds ONE func.func over i32/i1 whose body is a
reducible CFG assembled from structured templates and then roughened:

* templates: straight code, if-diamond (cond_br -> then/else -> merge with block arguments), if-triangle,
  counted loop (header with (i, acc) block arguments, bounded trip count 0..4, exit block), `cf.switch`-free;
* every jump may be routed through a *pass-through block* that holds only a `cf.br` and forwards
  - its own block arguments, and/or
  - values defined in dominating blocks (function arguments, earlier results), and/or constants,
  possibly permuted / duplicated; pass-through block arguments may ALSO be used later in blocks the
  pass-through block dominates (legal SSA; a trap for branch-collapsing patterns);
* merge blocks get a second predecessor that passes different values; conditional branches with both edges to
  the same block (with equal or different arguments); constant conditions (folding triggers); self-loops
  guarded by a counter; unreachable blocks (reachable only from other unreachable blocks).

All values are i32 except conditions (i1 from arith.cmpi). Division is avoided; shifts are masked.
Text only: nothing of xDSL is imported.
"""
from __future__ import annotations

BIN = ["addi", "subi", "muli", "andi", "ori", "xori"]
PRED = ["eq", "ne", "slt", "sle", "sgt", "sge", "ult", "ule", "ugt", "uge"]
CONSTS = [0, 1, -1, 2, 3, 7, 100, 2147483647, -2147483648]


class _B:
    def __init__(self, label, args):
        self.label, self.args, self.ops, self.term = label, args, [], None


class CfgGen:
    def __init__(self, rng):
        self.rng = rng
        self.k = 0
        self.blocks = []
        self.nb = 0

    def v(self):
        self.k += 1
        return f"%v{self.k}"

    def block(self, nargs=0):
        self.nb += 1
        b = _B(f"^bb{self.nb}", [self.v() for _ in range(nargs)])
        self.blocks.append(b)
        return b

    def const(self, b, val=None):
        x = self.v()
        b.ops.append(f"{x} = arith.constant {self.rng.choice(CONSTS) if val is None else val} : i32")
        return x

    def value(self, b, scope):
        if scope and self.rng.random() < 0.8:
            return self.rng.choice(scope)
        return self.const(b)

    def compute(self, b, scope, n):
        for _ in range(n):
            x = self.v()
            b.ops.append(f"{x} = arith.{self.rng.choice(BIN)} {self.value(b, scope)}, {self.value(b, scope)} : i32")
            scope.append(x)

    def cond(self, b, scope):
        c = self.v()
        if self.rng.random() < 0.15:
            b.ops.append(f"{c} = arith.constant {self.rng.choice(['true', 'false'])}")
        else:
            b.ops.append(f"{c} = arith.cmpi {self.rng.choice(PRED)}, {self.value(b, scope)}, {self.value(b, scope)} : i32")
        return c

    def jump(self, b, scope, target, targs, shuffle=True):
        """Terminate b with a branch to target(targs), possibly through pass-through blocks. Returns extra values
        that become visible in blocks dominated by the pass-through block (its arguments)."""
        rng = self.rng
        extra = []
        hops = rng.choice([0, 0, 1, 1, 2])
        cur, cur_scope, args = b, scope, list(targs)
        for _ in range(hops):
            # pass-through block: receives some of the forwarded values as block arguments
            take = [a for a in args if rng.random() < 0.6]
            p = self.block(len(take))
            self._br(cur, p, take)
            m = dict(zip(take, p.args))
            args = [m.get(a, a) if rng.random() < 0.85 else a for a in args]  # mix own args and dominating values
            if shuffle and rng.random() < 0.3 and len(args) > 1:
                i, j = rng.sample(range(len(args)), 2)
                args[i] = args[j]  # duplicate a forwarded value
            extra += p.args
            cur = p
        self._br(cur, target, args)
        return extra

    def _br(self, b, target, args):
        if args:
            b.term = f"cf.br {target.label}({', '.join(args)} : {', '.join('i32' for _ in args)})"
        else:
            b.term = f"cf.br {target.label}"

    def _cbr(self, b, c, t, targs, e, eargs):
        def side(blk, args):
            return f"{blk.label}({', '.join(args)} : {', '.join('i32' for _ in args)})" if args else blk.label
        b.term = f"cf.cond_br {c}, {side(t, targs)}, {side(e, eargs)}"

    def segment(self, b, scope, depth):
        """Extends the CFG starting in (open) block b; returns the open block to continue in and its scope."""
        rng = self.rng
        self.compute(b, scope, rng.choice([0, 1, 2]))
        r = rng.random()
        if depth >= 2 or r < 0.2:
            return b, scope
        if r < 0.55:  # diamond / triangle, sometimes both edges to the same block
            c = self.cond(b, scope)
            nm = rng.choice([1, 1, 2])
            merge = self.block(nm)
            if rng.random() < 0.2:
                a1 = [self.value(b, scope) for _ in range(nm)]
                a2 = a1 if rng.random() < 0.5 else [self.value(b, scope) for _ in range(nm)]
                self._cbr(b, c, merge, a1, merge, a2)
            else:
                tb, eb = self.block(0), self.block(0)
                self._cbr(b, c, tb, [], eb, [])
                for side in (tb, eb):
                    sc = list(scope)
                    end, sc = self.segment(side, sc, depth + 1)
                    if side is eb and rng.random() < 0.3:
                        self._br(end, merge, [self.value(end, sc) for _ in range(nm)])  # triangle-like short edge
                    else:
                        sc += self.jump(end, sc, merge, [self.value(end, sc) for _ in range(nm)])
            return self.segment(merge, scope + merge.args, depth + 1)
        if r < 0.85:  # counted loop: header(i, acc)
            n = self.const(b, rng.choice([0, 1, 2, 3, 4]))
            zero = self.const(b, 0)
            one = self.const(b, 1)
            head = self.block(2)
            scope2 = scope + [n, zero, one]
            extra = self.jump(b, scope2, head, [zero, self.value(b, scope)], shuffle=False)
            i, acc = head.args
            c = self.v()
            head.ops.append(f"{c} = arith.cmpi slt, {i}, {n} : i32")
            body, exitb = self.block(0), self.block(1)
            self._cbr(head, c, body, [], exitb, [acc])
            bs = scope2 + extra + [i, acc]
            end, bs = self.segment(body, bs, depth + 1)
            i2 = self.v()
            end.ops.append(f"{i2} = arith.addi {i}, {one} : i32")
            self._br(end, head, [i2, self.value(end, bs + [i2])])
            return self.segment(exitb, scope2 + extra + [i, acc] + exitb.args, depth + 1)
        # plain jump to a fresh block with arguments (through pass-through blocks)
        nxt = self.block(rng.choice([0, 1, 2]))
        extra = self.jump(b, scope, nxt, [self.value(b, scope) for _ in nxt.args])
        return self.segment(nxt, scope + extra + nxt.args, depth + 1)

    def func(self, name="main"):
        rng = self.rng
        nargs = rng.randint(1, 3)
        args = [f"%a{i}" for i in range(nargs)]
        entry = _B(None, [])
        self.blocks.append(entry)
        end, scope = self.segment(entry, list(args), 0)
        nret = rng.choice([1, 2])
        rets = [self.value(end, scope) for _ in range(nret)]
        end.term = f"func.return {', '.join(rets)} : {', '.join('i32' for _ in rets)}"
        if rng.random() < 0.3:  # unreachable blocks
            u1, u2 = self.block(1), self.block(0)
            x = self.const(u2, 5)
            self._br(u2, u1, [x])
            y = self.v()
            u1.ops.append(f"{y} = arith.addi {u1.args[0]}, {u1.args[0]} : i32")
            u1.term = f"func.return {', '.join(y for _ in rets)} : {', '.join('i32' for _ in rets)}"
        lines = [f"func.func public @{name}({', '.join(a + ': i32' for a in args)}) -> ({', '.join('i32' for _ in rets)}) {{"]
        for b in self.blocks:
            if b.label is not None:
                hdr = b.label + (f"({', '.join(a + ': i32' for a in b.args)})" if b.args else "") + ":"
                lines.append(hdr)
            lines += ["  " + o for o in b.ops]
            lines.append("  " + b.term)
        lines.append("}")
        return "\n".join(lines) + "\n", ["i32"] * nargs, ["i32"] * nret


def gen_cfg_func(rng, name="main"):
    return CfgGen(rng).func(name)
