"""Round-trip core shared by C04 (generic form) and C05 (custom form).

print -> fresh Context parse -> independent canonical form (xv.canon) -> attribution of the first
difference by a synchronised walk.  Nothing here calls Attribute.__eq__, is_structurally_equivalent or the
printer to *decide* equality: the printer/parser are the code under test, canon is the oracle.

Dialect resources (dense_resource<handle>) are compared by blob CONTENT: the builtin OpAsmDialectInterface
keeps its blob table in a class-level dict shared by every Context of the process, so a second parse in the
same process renames the handle (`key` -> `key_0`).  A real re-parse happens in a fresh process; we model
that by emptying the table before every parse (after recording the blobs of the IR we still hold)."""
from __future__ import annotations

from io import StringIO

from xv.canon import canon_attr, canon_ir, _normalise_props
from xv.corpus import new_ctx

_DRA = "xdsl.dialects.builtin.DenseResourceAttr"


def _blob_table():
    from xdsl.dialect_interfaces.op_asm import OpAsmDialectInterface
    return OpAsmDialectInterface._blob_storage


def has_resources(canon) -> bool:
    if isinstance(canon, tuple):
        if len(canon) == 3 and canon[0] == "P" and canon[1] == _DRA:
            return True
        return any(has_resources(c) for c in canon)
    return False


def resolve_resources(canon, table):
    """Replace every dense_resource handle in a canonical form by the blob it currently denotes; bool
    payloads become ints (IntAttr(True) and IntAttr(1) are the same value: DESIGN 1.6 / section 5)."""
    if isinstance(canon, tuple):
        if len(canon) == 2 and canon[0] == "bool" and isinstance(canon[1], bool):
            return ("int", int(canon[1]))
        if len(canon) == 3 and canon[0] == "P" and canon[1] == _DRA:
            handle = canon[2][0]
            key = handle[2][1] if handle[0] == "D" else None
            return ("P", _DRA, (("blob", table.get(key)),) + tuple(canon[2][1:]))
        return tuple(resolve_resources(c, table) for c in canon)
    return canon


def canon_module(m):
    """Canonical form of a module with resources resolved against the CURRENT blob table."""
    return resolve_resources(canon_ir(m), dict(_blob_table()))


def print_module(m, ctx, generic: bool, **kw) -> str:
    from xdsl.printer import Printer
    s = StringIO()
    p = Printer(stream=s, print_generic_format=generic, **kw)
    p.print_op(m)
    p.print_metadata(ctx.loaded_dialects)
    return s.getvalue()


EXTRA_DIALECTS: list = []  # harness-defined dialects (C05 format test ops) loaded into every fresh Context


def parse_fresh(text: str, name="<rt>"):
    """Parse in a fresh Context with an empty resource table (= a fresh process)."""
    from xdsl.parser import Parser
    _blob_table().clear()
    ctx = new_ctx()
    for d in EXTRA_DIALECTS:
        ctx.load_dialect(d)
    m = Parser(ctx, text, name).parse_module()
    return ctx, m


# --------------------------------------------------------------------------- difference attribution
COMPONENTS = ("name", "operands", "results", "properties", "attributes", "successors", "regions")


def _c_props(op):
    props, attrs = _normalise_props(op)
    from xdsl.dialects.builtin import UnregisteredOp
    if isinstance(op, UnregisteredOp):
        attrs = {k: v for k, v in attrs.items() if k != "op_name__"}
    return ({k: canon_attr(v) for k, v in props.items()}, {k: canon_attr(v) for k, v in attrs.items()})


def _dict_diff(a: dict, b: dict):
    """(kind, key) of the first differing entry: dropped (in a only) / gained (in b only) / changed."""
    for k in sorted(set(a) | set(b)):
        if k not in b:
            return "dropped", k
        if k not in a:
            return "gained", k
        if a[k] != b[k]:
            return "changed", k
    return None


def _opname(op):
    from xdsl.dialects.builtin import UnregisteredOp
    return "unregistered:" + op.op_name.data if isinstance(op, UnregisteredOp) else op.name


def first_op_diff(ma, mb, table_a=None, table_b=None):
    """Synchronised pre-order walk of two modules; returns a dict describing the first difference
    {op, component, detail, key?, a?, b?} or None.  `component` is one of COMPONENTS (or 'structure').
    Operand wiring is compared through positional numbering (canon of the whole module decides equality;
    this function only attributes)."""
    num_a, num_b = {}, {}

    def number(root, num):
        for op in root.walk():
            for r in op.results:
                num[id(r)] = len(num)
            for reg in op.regions:
                for blk in reg.blocks:
                    num[id(blk)] = len(num)
                    for a in blk.args:
                        num[id(a)] = len(num)
    number(ma, num_a)
    number(mb, num_b)
    ta = table_a or {}
    tb = table_b or {}

    def res(c, t):
        return resolve_resources(c, t)

    wa, wb = list(ma.walk()), list(mb.walk())
    for a, b in zip(wa, wb):
        d = _op_pair_diff(a, b, num_a, num_b, ta, tb, res)
        if d is not None:
            d["a_op_generic"] = op_text(a, generic=True, limit=500)
            d["b_op_generic"] = op_text(b, generic=True, limit=500)
            return d
    if len(wa) != len(wb):
        return {"op": "builtin.module", "component": "structure", "detail": f"{len(wa)} vs {len(wb)} ops"}
    return None


def all_diff_op_names(ma, mb, table_a=None, table_b=None, limit=40):
    """For ALL ops that differ in a synchronised walk: [op name, parent name, grand-parent name, ...] - only used to
    order the candidates of the single-operation isolation, never to decide."""
    num_a, num_b = {}, {}
    for root, num in ((ma, num_a), (mb, num_b)):
        for op in root.walk():
            for r in op.results:
                num[id(r)] = len(num)
            for reg in op.regions:
                for blk in reg.blocks:
                    num[id(blk)] = len(num)
                    for a in blk.args:
                        num[id(a)] = len(num)
    ta, tb = table_a or {}, table_b or {}
    out = []
    for a, b in zip(ma.walk(), mb.walk()):
        d = _op_pair_diff(a, b, num_a, num_b, ta, tb, resolve_resources)
        if d is None:
            continue
        chain = [_opname(a)]
        p = a.parent_op()
        while p is not None:
            chain.append(_opname(p))
            p = p.parent_op()
        if chain not in out:
            out.append(chain)
        if d.get("component") == "regions" or _opname(a) != _opname(b) or len(out) >= limit:
            break  # the walks are no longer aligned after a structural difference
    return out


def _op_pair_diffs(a, b, num_a, num_b, ta, tb, res):
    """All differences between two ops at the same walk position: [(diff dict, structural?)]. A structural difference
    (different op, different region/block/op counts) means the synchronised walk cannot continue."""
    na, nb = _opname(a), _opname(b)
    if na != nb:
        par = a.parent_op()
        return [({"op": _opname(par) if par is not None else na, "component": "regions",
                  "detail": f"nested op {na} became {nb}"}, True)]
    out = []
    if len(a.results) != len(b.results) or any(
            res(canon_attr(x.type), ta) != res(canon_attr(y.type), tb) for x, y in zip(a.results, b.results)):
        out.append(({"op": na, "component": "results",
                     "detail": f"({', '.join(str(x.type) for x in a.results)}) vs ({', '.join(str(y.type) for y in b.results)})"},
                    len(a.results) != len(b.results)))
    oa = [num_a.get(id(o), "ext") for o in a.operands]
    ob = [num_b.get(id(o), "ext") for o in b.operands]
    if oa != ob:
        out.append(({"op": na, "component": "operands", "detail": f"wiring {oa} vs {ob}"}, False))
    elif [res(canon_attr(o.type), ta) for o in a.operands] != [res(canon_attr(o.type), tb) for o in b.operands]:
        out.append(({"op": na, "component": "operands", "detail": "operand types differ"}, False))
    pa, aa = _c_props(a)
    pb, ab = _c_props(b)
    pa, aa, pb, ab = (dict(res(tuple(sorted(d.items())), t)) for d, t in ((pa, ta), (aa, ta), (pb, tb), (ab, tb)))
    for comp, da, db, ga, gb in (("properties", pa, pb, lambda k: a.properties.get(k, a.attributes.get(k)),
                                  lambda k: b.properties.get(k, b.attributes.get(k))),
                                 ("attributes", aa, ab, lambda k: a.attributes.get(k), lambda k: b.attributes.get(k))):
        for k in sorted(set(da) | set(db)):
            kind = "dropped" if k not in db else "gained" if k not in da else "changed" if da[k] != db[k] else None
            if kind:
                d = {"op": na, "component": comp, "detail": kind, "key": k, "a": str(ga(k))[:200], "b": str(gb(k))[:200]}
                cls = _array_of_dict_class(a, k, ga(k) if ga(k) is not None else gb(k))
                if cls:
                    d["value_class"] = cls
                out.append((d, False))
    sa = [num_a.get(id(s), "ext") for s in a.successors]
    sb = [num_b.get(id(s), "ext") for s in b.successors]
    if sa != sb:
        out.append(({"op": na, "component": "successors", "detail": f"{sa} vs {sb}"}, False))
    if len(a.regions) != len(b.regions):
        out.append(({"op": na, "component": "regions", "detail": f"{len(a.regions)} vs {len(b.regions)} regions"}, True))
        return out
    for ri, (ra, rb) in enumerate(zip(a.regions, b.regions)):
        ba, bb = list(ra.blocks), list(rb.blocks)
        if len(ba) != len(bb):
            out.append(({"op": na, "component": "regions", "detail": f"region {ri}: {len(ba)} vs {len(bb)} blocks"}, True))
            return out
        for bi, (x, y) in enumerate(zip(ba, bb)):
            if [res(canon_attr(v.type), ta) for v in x.args] != [res(canon_attr(v.type), tb) for v in y.args]:
                out.append(({"op": na, "component": "regions", "detail": f"region {ri} block {bi}: block argument types differ"},
                            len(x.args) != len(y.args)))
            if len(list(x.ops)) != len(list(y.ops)):
                out.append(({"op": na, "component": "regions",
                             "detail": f"region {ri} block {bi}: {len(list(x.ops))} vs {len(list(y.ops))} ops"}, True))
                return out
    return out


def _array_of_dict_class(op, key, value):
    """Shape class of a per-element attribute array (arg_attrs / res_attrs and alike), so that a known finding about
    one shape (e.g. an array of only empty dictionaries is not printed) cannot absorb a defect about another (a
    partially filled array is lost): all-empty / partial / full, or length-mismatch when the op has a function type and
    the array length is not the number of arguments / results."""
    from xdsl.dialects.builtin import ArrayAttr, DictionaryAttr
    if not isinstance(value, ArrayAttr) or not value.data or not all(isinstance(e, DictionaryAttr) for e in value.data):
        return None
    n = len(value.data)
    ft = op.properties.get("function_type", op.attributes.get("function_type"))
    if ft is not None and key in ("arg_attrs", "res_attrs"):
        try:
            ins = list(ft.inputs)
            outs = list(ft.outputs) if hasattr(ft, "outputs") else [ft.output]
            want = len(ins) if key == "arg_attrs" else len([o for o in outs if type(o).__name__ != "LLVMVoidType"])
            if want != n:
                return "length-mismatch" + ("-on-declaration" if op.regions and not op.regions[0].blocks else "")
        except Exception:  # noqa: BLE001 - classifier only
            pass
    empty = sum(1 for e in value.data if not e.data)
    cls = "all-empty" if empty == n else "full" if empty == 0 else "partial"
    if ft is not None and op.regions and not op.regions[0].blocks:
        cls += "-on-declaration"  # a function declaration (empty body) is printed by a different branch of the format
    return cls


def _op_pair_diff(a, b, num_a, num_b, ta, tb, res):
    d = _op_pair_diffs(a, b, num_a, num_b, ta, tb, res)
    return d[0][0] if d else None


def all_op_diffs(ma, mb, table_a=None, table_b=None, limit=60):
    """Every distinct (op name, component, key, kind) difference found by a synchronised walk, in walk order, until the
    walks lose alignment. The first entry is what first_op_diff would return."""
    num_a, num_b = {}, {}
    for root, num in ((ma, num_a), (mb, num_b)):
        for op in root.walk():
            for r in op.results:
                num[id(r)] = len(num)
            for reg in op.regions:
                for blk in reg.blocks:
                    num[id(blk)] = len(num)
                    for arg in blk.args:
                        num[id(arg)] = len(num)
    ta, tb = table_a or {}, table_b or {}
    out, seen = [], set()
    wa, wb = list(ma.walk()), list(mb.walk())
    for a, b in zip(wa, wb):
        stop = False
        for d, structural in _op_pair_diffs(a, b, num_a, num_b, ta, tb, resolve_resources):
            sig = (d["op"], d["component"], d.get("key"), d.get("detail") if "key" in d else None, d.get("value_class"))
            if sig not in seen:
                seen.add(sig)
                d["a_op_generic"] = op_text(a, generic=True, limit=500)
                d["b_op_generic"] = op_text(b, generic=True, limit=500)
                out.append(d)
            stop = stop or structural
        if stop or len(out) >= limit:
            return out
    if len(wa) != len(wb) and not out:
        out.append({"op": "builtin.module", "component": "structure", "detail": f"{len(wa)} vs {len(wb)} ops"})
    return out


def op_text(op, generic=False, limit=400) -> str:
    """Best-effort printed form of a single op for witnesses (never decides anything)."""
    from xdsl.printer import Printer
    s = StringIO()
    try:
        Printer(stream=s, print_generic_format=generic).print_op(op)
    except Exception as e:  # noqa: BLE001 - witness text only
        return f"<unprintable: {type(e).__name__}>"
    return s.getvalue()[:limit]


def exc_site(e: BaseException) -> str:
    """Innermost raising function (qualname) of an exception, for crash mechanism keys."""
    tb = e.__traceback__
    last = None
    while tb is not None:
        last = tb
        tb = tb.tb_next
    if last is None:
        return "?"
    code = last.tb_frame.f_code
    return getattr(code, "co_qualname", code.co_name)


def parse_error_site(e: BaseException) -> str:
    """For ParseError: the *parser method that decided to raise* (the frame that called raise_error),
    which identifies the grammar production that rejected the text."""
    tb = e.__traceback__
    frames = []
    while tb is not None:
        frames.append(tb.tb_frame.f_code)
        tb = tb.tb_next
    skip = {"raise_error", "expect", "_parse_token", "parse_punctuation", "parse_characters", "parse_keyword"}
    for code in reversed(frames):
        if code.co_name not in skip:
            return getattr(code, "co_qualname", code.co_name)
    return "?"


# --------------------------------------------------------------------------- one round-trip case
def _raw_canon(m):
    """Canonical form WITHOUT the two normalisations and with name hints (decides whether the second print must
    be textually identical or only a fixpoint)."""
    return resolve_resources(canon_ir(m, with_hints=False, normalise=False), dict(_blob_table()))


def roundtrip(m, ctx, generic: bool, *, reference=None, check_clone=True, check_text=True, printer_cls=None, printer_kw=None):
    """Run the print -> parse -> compare cycle on a verified module.

    Returns {"symptoms": [ {symptom, ...detail} ], "t1": text or None, "m2": reparsed module or None,
             "canon": canonical form of m, "fixpoint_only": bool}.
    `reference` = (canonical form, module, resource table) replaces m as the expected value (C05 compares the
    custom round trip with the generic round trip when that one is itself lossy)."""
    from xdsl.printer import Printer
    from xdsl.utils.exceptions import ParseError
    pc = printer_cls or Printer
    kw = dict(printer_kw or {})

    def pr(mod, c):
        s = StringIO()
        p = pc(stream=s, print_generic_format=generic, **kw)
        p.print_op(mod)
        p.print_metadata(c.loaded_dialects)
        return s.getvalue()

    out = {"symptoms": [], "t1": None, "m2": None, "ctx2": None, "tab2": None, "canon": None, "canon2": None,
           "fixpoint_only": False}
    S = out["symptoms"]
    tab0 = dict(_blob_table())
    try:
        c0 = resolve_resources(canon_ir(m), tab0)
    except Exception as e:  # noqa: BLE001 - only reachable when an earlier (crashed) print left the IR half-edited
        S.append({"symptom": "ir-unreadable-before-print", "exc": type(e).__name__, "site": exc_site(e), "msg": str(e)[:200]})
        return out
    out["canon"] = c0
    try:
        t1 = pr(m, ctx)
    except Exception as e:  # noqa: BLE001 - the printer is the code under test
        S.append({"symptom": "print-crash", "exc": type(e).__name__, "site": exc_site(e), "msg": str(e)[:200]})
        return out
    out["t1"] = t1
    t1b = pr(m, ctx) if check_text else t1
    if t1b != t1:
        S.append({"symptom": "print-nondeterministic", "detail": _first_text_diff(t1, t1b)})
    if check_clone:
        try:
            mc = m.clone()
            tc = pr(mc, ctx)
        except Exception as e:  # noqa: BLE001
            S.append({"symptom": "clone-print-crash", "exc": type(e).__name__, "site": exc_site(e), "msg": str(e)[:200]})
        else:
            if tc != t1:
                S.append({"symptom": "clone-print-differs", "detail": _first_text_diff(t1, tc)})
    try:
        ctx2, m2 = parse_fresh(t1)
    except ParseError as e:
        S.append({"symptom": "reparse-fail", "site": parse_error_site(e), "msg": _perr(e), "where": _perr_where(e, t1)})
        _restore(tab0)
        return out
    except Exception as e:  # noqa: BLE001
        S.append({"symptom": "reparse-crash", "exc": type(e).__name__, "site": exc_site(e), "msg": str(e)[:200]})
        _restore(tab0)
        return out
    out["m2"] = m2
    out["ctx2"] = ctx2
    tab1 = dict(_blob_table())
    out["tab2"] = tab1
    c1 = resolve_resources(canon_ir(m2), tab1)
    out["canon2"] = c1
    if reference is not None:
        expected, ref_mod, ref_tab = reference
    else:
        expected, ref_mod, ref_tab = c0, m, tab0
    if c1 != expected:
        ds = all_op_diffs(ref_mod, m2, ref_tab, tab1) or [{"op": "?", "component": "unattributed", "detail": "canon differs"}]
        for d in ds:
            d["symptom"] = "canon-differs"
            S.append(d)
    else:
        try:
            m2.verify()
        except Exception as e:  # noqa: BLE001
            S.append({"symptom": "reparsed-ir-does-not-verify", "msg": str(e)[:200]})
        t2 = pr(m2, ctx2) if check_text else t1
        if t2 != t1:
            raw0 = resolve_resources(canon_ir(m, normalise=False), tab0)
            raw1 = resolve_resources(canon_ir(m2, normalise=False), tab1)
            if raw0 == raw1:
                S.append({"symptom": "reprint-differs", "detail": _first_text_diff(t1, t2)})
            else:
                # m and m2 differ only by the two stated normalisations: require the fixpoint instead
                out["fixpoint_only"] = True
                try:
                    ctx3, m3 = parse_fresh(t2)
                    t3 = pr(m3, ctx3)
                except Exception as e:  # noqa: BLE001
                    S.append({"symptom": "reprint-differs", "fixpoint": True, "detail": "the second print does not re-parse",
                              "exc": type(e).__name__, "msg": str(e)[-200:]})
                else:
                    if t3 != t2:
                        S.append({"symptom": "reprint-differs", "detail": _first_text_diff(t2, t3), "fixpoint": True})
    _restore(tab0)
    return out


def _restore(tab):
    t = _blob_table()
    t.clear()
    t.update(tab)


def _first_text_diff(a: str, b: str):
    la, lb = a.splitlines(), b.splitlines()
    for i, (x, y) in enumerate(zip(la, lb)):
        if x != y:
            return {"line": i + 1, "a": x.strip()[:300], "b": y.strip()[:300]}
    return {"line": min(len(la), len(lb)) + 1, "a": f"<{len(la)} lines>", "b": f"<{len(lb)} lines>"}


def _perr(e) -> str:
    msg = getattr(e, "msg", None)
    if isinstance(msg, str):
        return msg[:200]
    lines = [l.strip() for l in str(e).strip().splitlines() if l.strip()]
    return (lines[-1] if lines else "")[:200]


def _perr_where(e, text):
    sp = getattr(e, "span", None)
    if sp is None:
        return None
    try:
        start = sp.start
        ls = text.rfind("\n", 0, start) + 1
        le = text.find("\n", start)
        return {"pos": start, "line": text[ls:le if le >= 0 else len(text)].strip()[:300], "at": text[start:start + 12]}
    except Exception:  # noqa: BLE001 - witness only
        return None


def selective_printer():
    """Printer subclass that uses the custom format only for the op names in `custom_names` (everything else is
    printed in the generic format) - used to attribute a custom-form failure to one operation."""
    from dataclasses import dataclass, field
    from xdsl.printer import Printer

    @dataclass(eq=False, repr=False)
    class SelectivePrinter(Printer):
        custom_names: frozenset = field(default_factory=frozenset)

        def print_op(self, op):
            prev = self.print_generic_format
            self.print_generic_format = op.name not in self.custom_names
            try:
                super().print_op(op)
            finally:
                self.print_generic_format = prev

    return SelectivePrinter
