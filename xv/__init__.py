"""xv: runtime-monitoring machinery for the xDSL properties (see /verif/DESIGN.md)."""
