"""C07 workload: hostile text for the MLIR parser.

Four input families, every one a pure function of a `random.Random`:
  * `mutate`   - token/byte/line level mutations of corpus chunks (dictionary of MLIR tokens, builtin attribute
                 keywords, non-ASCII letters/digits, NUL/control characters, unbalanced quotes and brackets,
                 numeric boundary literals, fragments harvested from other corpus chunks),
  * `soup`     - grammar-directed token soups: generic-syntax operations whose attributes/types are drawn from a
                 small grammar of the builtin attribute/type syntax with error injection at every production,
  * `splice`   - lines of different corpus chunks glued together (dialect custom syntax in foreign contexts),
  * `pump`     - repetition families prefix + unit*k + suffix used by the scaling probe (timing).
Nothing here imports xDSL."""
from __future__ import annotations

import re

# ------------------------------------------------------------------ dictionary
PUNCT = ['(', ')', '{', '}', '[', ']', '<', '>', ',', ':', '=', '->', '"', '-', '+', '*', '?', '/', '|', '::', '...',
         '{-#', '#-}', '.', '..', '#', '!', '^', '%', '@', '\\', "'", ';', '&', '~', '`', '$', '()', '[]', '{}', '<>',
         '<{', '}>', '({', '})', '":', '" ', '//', '// -----', '\n', ' ', '\t', '\r\n']
IDENTS = ['%0', '%a', '%0#1', '%a:2', '%-1', '%_', '^bb0', '^1', '^42', '^-', '^bb0(%x : i32):', '@f', '@"f"', '@"\\22"',
          '@f::@g', '#a', '#0', '#a.b', '#a.b<1>', '!t', '!0', '!a.b', '!a.b<x>', '#builtin.int<1>', '#builtin.unit',
          '!builtin.index', '!builtin.i32', '"builtin.module"', '"test.op"', '"func.func"', 'func.func', 'builtin.module',
          'module', 'test.op', 'arith.constant', 'scf.for', 'memref.alloc', 'x', 'x1', 'xi32', 'x4xf32', '0x', '0xi32',
          'é', 'ß', 'Ω', '²', '٣', '１', '½', '〇', '𝟙', '你', '😀', 'e\u0301', '\u200b', '\ufeff', '\u2028', '\x00',
          '\x0b', '\x0c', '\x7f', '\x85', '\xa0', 'İ', 'ǅ']
NUMS = ['0', '1', '-1', '2', '42', '-0', '00', '007', '0x0', '0xFF', '0xff', '0XFF', '0xG', '0x', '1.', '1.5', '.5', '1e10',
        '1E5', '1e', '1e+', '1.0e-3', '1.e5', '-1.5', '1e999', '-1e999', '1e-999', '1.7976931348623157e308', '4294967296',
        '18446744073709551615', '18446744073709551616', '-9223372036854775809', '99999999999999999999',
        '340282366920938463463374607431768211456', '0x7FC00000', '0xFFFFFFFFFFFFFFFF', '0x1FFFFFFFFFFFFFFFF', '0x7F800000',
        '0xFFF0000000000001', '9' * 40, '9' * 4400, '0x' + 'F' * 5000, '1' + '0' * 400 + '.0', '0.' + '0' * 400 + '1',
        '1e' + '9' * 30, 'inf', 'nan', '-inf', 'true', 'false', '2147483648', '-2147483649', '255', '256', '-129', '-', '- 1', '-x',
        '--1', '-true', '-0x', '-.5', '- -1', '-?', '-[', '1.5.3', '1..2', '1.e', '0x1p3', '1_000', '1.0f', '0b1', '0o7', '1e5e5']
KEYWORDS = ['dense', 'dense<', 'dense<>', 'dense<[]>', 'dense_resource', 'dense_resource<', 'array', 'array<', 'array<i32>',
            'array<i32:', 'affine_map', 'affine_map<', 'affine_set', 'affine_set<', 'loc', 'loc(', 'loc(unknown)',
            'loc("f":1:2)', 'loc(fused[', 'loc(callsite(', 'opaque', 'opaque<', 'strided', 'strided<', 'strided<[',
            'offset', 'offset:', 'memref', 'memref<', 'memref<*x', 'tensor', 'tensor<', 'tensor<*x', 'vector', 'vector<',
            'vector<[', 'complex', 'complex<', 'tuple', 'tuple<', 'unit', 'none', 'index', 'i1', 'i8', 'i32', 'i64', 'i0',
            'i16777216', 'i99999999999', 'si8', 'ui8', 'si', 'ui', 'f16', 'bf16', 'f32', 'f64', 'f80', 'f128', 'tf32',
            'f8E4M3FN', 'f8E5M2', 'f4E2M1FN', 'f', 'i', 'i-1', 'ix', 'i32x', 'floordiv', 'ceildiv', 'mod', 'd0', 'd1', 's0',
            's1', 'symbol', 'symbol(', 'attributes', 'dialect_resources', 'external_resources', 'builtin', 'dialect_resources: {',
            'external_resources: {', 'distinct', 'distinct[0]<', 'sparse', 'sparse<', 'public', 'private', 'nested', 'ins',
            'outs', 'to', 'step', 'iter_args', '->', 'attributes {', 'tensor<2xi32>', 'tensor<?x?xf32>', 'memref<2xf32, 1>',
            'vector<[4]xi8>', '(i32) -> i32', '() -> ()', ': () -> ()', '{a = 1 : i32}', '<{a = 1}>', '[^bb0]', '({})',
            ': i32', ': f32', ': index', ': tensor<2xi32>', 'dense<0> : tensor<2xi32>', 'dense<[1, 2]> : tensor<2xi32>',
            'dense<"0x00">', '1 : i1', '2 : i1', '-1 : ui8', '256 : i8', '1.0 : i32', '1 : f32', '0x7FC00000 : f32',
            'array<i8: 300>', 'array<f32: 0x7fc00000>', 'array<i1: 2>', 'dense<1> : tensor<99999999999xi8>',
            'dense<1.0> : tensor<2x2xi32>', 'dense<[[1], [2, 3]]> : tensor<2x2xi8>', 'tensor<-1xi32>', 'tensor<0xi32>',
            'vector<0xi32>', 'tensor<2x>', 'tensor<x2xi32>', 'tensor<2 x i32>', 'tensor<2xi32', 'memref<2xi32, , >',
            'strided<[?, 1], offset: ?>', 'affine_map<(d0)[s0] -> (d0 + s0)>', 'affine_map<() -> ()>',
            'affine_map<(d0) -> (d0 floordiv 0)>', 'affine_map<(d0) -> (d0 mod 0)>', 'affine_map<(d0, d0) -> (d0)>',
            'affine_map<(d0) -> (d1)>', 'affine_set<(d0) : (d0 >= 0)>', 'affine_set<(d0) : (d0 == )>',
            'opaque<"d", "x">', 'opaque<"", "">', '"\\00"', '"\\FF"', '"\\q"', '"\\"', '"\\x41"', '"é"', '"\\C3"',
            '"a\\0Ab"', '"', '""', '"" ""', "'a'"]
TOK = PUNCT + IDENTS + NUMS + KEYWORDS
BRACKETS = '()[]{}<>'
CTRL = [0, 1, 8, 9, 10, 11, 12, 13, 27, 28, 29, 30, 31, 127, 0x85, 0xa0]
NONASCII_RANGES = [(0x80, 0x250), (0x370, 0x400), (0x660, 0x66a), (0x6f0, 0x6fa), (0x966, 0x970), (0x2000, 0x2070),
                   (0x2070, 0x20a0), (0x2150, 0x2190), (0x3000, 0x3040), (0xff10, 0xff5b), (0xe000, 0xe010),
                   (0x1d7ce, 0x1d800), (0x1f600, 0x1f610), (0x10ffff, 0x110000)]

_TOKRE = re.compile(r'"(?:[^"\\\n]|\\.)*"|[%^#!@]?[A-Za-z_][\w$.]*|[%^#!]?\d+|->|\S')


def rand_char(rng) -> str:
    m = rng.random()
    if m < 0.35:
        return chr(rng.randrange(32, 127))
    if m < 0.5:
        return chr(rng.choice(CTRL))
    lo, hi = rng.choice(NONASCII_RANGES)
    return chr(rng.randrange(lo, hi))


def token_spans(s: str):
    return [(m.start(), m.end()) for m in _TOKRE.finditer(s)]


# ------------------------------------------------------------------ harvested fragments
_FRAG_HEAD = re.compile(r'(?:[#!][A-Za-z_][\w$.]*|dense|dense_resource|array|affine_map|affine_set|opaque|strided|memref|'
                        r'tensor|vector|complex|tuple|sparse)<|loc\(')


def _balanced_end(s: str, i: int, limit: int = 400):
    """index after the bracket that closes the one at s[i-1]; None if unbalanced/too long"""
    close = {'<': '>', '(': ')', '[': ']', '{': '}'}
    st = [close[s[i - 1]]]
    j, n = i, min(len(s), i + limit)
    while j < n:
        c = s[j]
        if c == '"':
            j += 1
            while j < n and s[j] != '"':
                j += 2 if s[j] == '\\' else 1
        elif c == '-' and s[j + 1:j + 2] == '>':
            j += 1
        elif c in close:
            st.append(close[c])
        elif c in ')]}>':
            if st[-1] != c:
                return None
            st.pop()
            if not st:
                return j + 1
        j += 1
    return None


def harvest_fragments(texts, cap=6000):
    """attribute/type looking fragments (`#d.a<...>`, `dense<...>`, `loc(...)`...) and whole op lines of the corpus"""
    frags, seen = [], set()
    for t in texts:
        for m in _FRAG_HEAD.finditer(t):
            e = _balanced_end(t, m.end())
            if e is not None:
                f = t[m.start():e]
                if f not in seen:
                    seen.add(f)
                    frags.append(f)
        if len(frags) >= cap:
            break
    return frags


def harvest_lines(texts, cap=20000):
    out, seen = [], set()
    for t in texts:
        for ln in t.split('\n'):
            x = ln.strip()
            if not x or x.startswith('//') or len(x) > 300:
                continue
            if '//' in x and '"' not in x:
                x = x[:x.index('//')].rstrip()
            if x and x not in seen:
                seen.add(x)
                out.append(x)
        if len(out) >= cap:
            break
    return out


# ------------------------------------------------------------------ mutation of a seed text
MUT_OPS = ['ins_tok', 'ins_tok', 'ins_tok', 'del_span', 'del_tok', 'del_tok', 'repl_tok', 'repl_tok', 'repl_tok', 'swap_tok',
           'chr', 'chr', 'trunc', 'dup', 'num', 'num', 'bracket', 'quote', 'quote', 'frag', 'frag', 'line_del', 'line_dup',
           'line_swap', 'line_in', 'case', 'ws', 'head']


def _tokpos(rng, s, spans):
    if spans and rng.random() < 0.85:
        a, b = rng.choice(spans)
        return a if rng.random() < 0.5 else b
    return rng.randrange(len(s) + 1)


def mutate_once(rng, s: str, pool) -> tuple[str, str]:
    """one mutation; returns (text, op name). `pool` = {"frags": [...], "lines": [...]}"""
    if not s:
        return rng.choice(TOK), 'ins_tok'
    op = rng.choice(MUT_OPS)
    spans = token_spans(s) if len(s) < 6000 else []
    if op == 'ins_tok':
        p = _tokpos(rng, s, spans)
        t = rng.choice(TOK)
        if rng.random() < 0.3:
            t = ' ' + t + ' '
        return s[:p] + t + s[p:], op
    if op == 'del_span':
        p = rng.randrange(len(s))
        q = min(len(s), p + rng.choice([1, 1, 2, 3, 5, 20, 80]))
        return s[:p] + s[q:], op
    if op == 'del_tok' and spans:
        a, b = rng.choice(spans)
        return s[:a] + s[b:], op
    if op == 'repl_tok' and spans:
        a, b = rng.choice(spans)
        m = rng.random()
        if m < 0.6:
            t = rng.choice(TOK)
        elif m < 0.85:
            c, d = rng.choice(spans)
            t = s[c:d]
        else:
            t = rng.choice(pool['frags']) if pool['frags'] else rng.choice(TOK)
        return s[:a] + t + s[b:], op
    if op == 'swap_tok' and len(spans) >= 2:
        i = rng.randrange(len(spans) - 1)
        j = min(len(spans) - 1, i + rng.choice([1, 1, 2, 5]))
        (a, b), (c, d) = spans[i], spans[j]
        if b <= c:
            return s[:a] + s[c:d] + s[b:c] + s[a:b] + s[d:], op
    if op == 'chr':
        p = rng.randrange(len(s) + 1)
        c = rand_char(rng)
        if rng.random() < 0.5 and p < len(s):
            return s[:p] + c + s[p + 1:], op
        return s[:p] + c + s[p:], op
    if op == 'trunc':
        p = _tokpos(rng, s, spans)
        return s[:p], op
    if op == 'dup':
        p = rng.randrange(len(s))
        q = min(len(s), p + rng.randrange(1, 40))
        r = rng.choice([1, 1, 2, 3, 8, 40])
        return s[:q] + s[p:q] * r + s[q:], op
    if op == 'num':
        nums = [(a, b) for a, b in spans if s[a].isdigit() or (s[a] == '-' and b - a > 1)]
        if nums:
            a, b = rng.choice(nums)
            return s[:a] + rng.choice(NUMS) + s[b:], op
        p = _tokpos(rng, s, spans)
        return s[:p] + rng.choice(NUMS) + s[p:], op
    if op == 'bracket':
        br = [i for i, c in enumerate(s) if c in BRACKETS]
        if br:
            p = rng.choice(br)
            m = rng.random()
            if m < 0.4:
                return s[:p] + s[p + 1:], op
            if m < 0.8:
                return s[:p] + rng.choice(BRACKETS) + s[p + 1:], op
            return s[:p] + s[p] * rng.choice([2, 3, 30]) + s[p + 1:], op
    if op == 'quote':
        qs = [i for i, c in enumerate(s) if c == '"']
        m = rng.random()
        if qs and m < 0.35:
            p = rng.choice(qs)
            return s[:p] + s[p + 1:], op
        if qs and m < 0.7:
            # put an escape / odd character inside an existing literal
            p = rng.choice(qs) + 1
            return s[:p] + rng.choice(['\\', '\\q', '\\0', '\\x', '\\"', '\\\\', '\\n', '\\C3', '\\FF\\FE', '\n', '\x00',
                                        'é', '\\u00e9']) + s[p:], op
        p = _tokpos(rng, s, spans)
        return s[:p] + '"' + s[p:], op
    if op == 'frag' and pool['frags']:
        f = rng.choice(pool['frags'])
        if rng.random() < 0.3:
            f, _ = mutate_once(rng, f, {'frags': [], 'lines': []})
        hs = [m for m in _FRAG_HEAD.finditer(s)] if len(s) < 6000 else []
        if hs and rng.random() < 0.7:
            m = rng.choice(hs)
            e = _balanced_end(s, m.end())
            if e is not None:
                return s[:m.start()] + f + s[e:], op
        p = _tokpos(rng, s, spans)
        return s[:p] + f + s[p:], op
    lines = s.split('\n')
    if op == 'line_del' and len(lines) > 1:
        i = rng.randrange(len(lines))
        return '\n'.join(lines[:i] + lines[i + 1:]), op
    if op == 'line_dup' and lines:
        i = rng.randrange(len(lines))
        return '\n'.join(lines[:i] + [lines[i]] * rng.choice([2, 2, 3, 10]) + lines[i + 1:]), op
    if op == 'line_swap' and len(lines) > 2:
        i, j = rng.randrange(len(lines)), rng.randrange(len(lines))
        lines[i], lines[j] = lines[j], lines[i]
        return '\n'.join(lines), op
    if op == 'line_in' and pool['lines']:
        i = rng.randrange(len(lines) + 1)
        return '\n'.join(lines[:i] + [rng.choice(pool['lines'])] + lines[i:]), op
    if op == 'case' and spans:
        a, b = rng.choice(spans)
        return s[:a] + s[a:b].swapcase() + s[b:], op
    if op == 'ws' and spans:
        a, b = rng.choice(spans)
        if b - a > 1:
            p = rng.randrange(a + 1, b)
            return s[:p] + rng.choice([' ', '\n', '\t', '//\n', ' // c\n']) + s[p:], op
    if op == 'head':
        return rng.choice(['{-# ', '#a = ', '!a = ', '"builtin.module"() ({\n', 'builtin.module {\n', '// -----\n', '^bb0:\n',
                           '%0 = ', '\ufeff', '{-# dialect_resources: { builtin: { r: "0x0800000001" } } #-}\n',
                           '{-# external_resources: { mlir_reproducer: { pipeline: "x" } } #-}\n']) + s, op
    # fall back
    p = rng.randrange(len(s) + 1)
    return s[:p] + rng.choice(TOK) + s[p:], 'ins_tok'


def mutate(rng, s: str, pool) -> tuple[str, list[str]]:
    k = rng.choice([1, 1, 1, 2, 2, 3, 5])
    ops = []
    for _ in range(k):
        s, op = mutate_once(rng, s, pool)
        ops.append(op)
    return s, ops


# ------------------------------------------------------------------ grammar-directed soup (builtin syntax, tier A)
class Soup:
    """Random generic-syntax module whose attributes and types follow (approximately) the builtin grammar; every
    production may be corrupted (probability `err`) by a dictionary token, a dropped or doubled piece."""

    def __init__(self, rng, err=0.04, pool=None):
        self.r = rng
        self.err = err
        self.pool = pool or {'frags': [], 'lines': []}
        self.depth = 0

    def _c(self, s: str) -> str:
        r = self.r
        if r.random() >= self.err:
            return s
        m = r.random()
        if m < 0.35:
            return r.choice(TOK)
        if m < 0.5:
            return ''
        if m < 0.65:
            return s + s
        if m < 0.8:
            return s + r.choice(TOK)
        if m < 0.9 and s:
            p = r.randrange(len(s))
            return s[:p] + rand_char(r) + s[p + 1:]
        return r.choice(TOK) + s

    def int_lit(self):
        r = self.r
        m = r.random()
        if m < 0.5:
            return str(r.choice([0, 1, 2, 3, 4, 7, 8, 16, 255, 256, 65535, 2 ** 31, 2 ** 32 - 1, 2 ** 63, 2 ** 64]))
        if m < 0.7:
            return '-' + str(r.choice([0, 1, 2, 128, 129, 2 ** 31, 2 ** 31 + 1, 2 ** 63 + 1]))
        if m < 0.85:
            return hex(r.getrandbits(r.choice([1, 8, 16, 32, 64, 65])))
        return r.choice(NUMS)

    def float_lit(self):
        r = self.r
        return r.choice(['0.0', '-0.0', '1.0', '1.5e3', '2.', '1e10', '-1E-5', '3.4028235e38', '1e39', '5e-324', '0x7FC00000',
                         '0x7F800000', '0xFF800000', '0x7FF8000000000000', '0x3C00', '0xFFFFFFFFFF', '1.0e', '.5', '1'])

    def itype(self):
        r = self.r
        m = r.random()
        if m < 0.6:
            return r.choice(['i1', 'i8', 'i16', 'i32', 'i64', 'index', 'i128', 'si32', 'ui8', 'si1', 'ui64'])
        if m < 0.9:
            return r.choice(['i', 'si', 'ui']) + str(r.choice([0, 1, 2, 3, 7, 24, 63, 65, 1000, 16777215, 16777216, 2 ** 40]))
        return r.choice(['i', 'i-1', 'i32i', 'I32', 'u8', 'int', 'i 32', 'i032'])

    def ftype(self):
        return self.r.choice(['f16', 'bf16', 'f32', 'f64', 'f80', 'f128', 'tf32', 'f8E4M3FN', 'f8E5M2', 'f4E2M1FN', 'f6E3M2FN',
                              'f8E8M0FNU', 'f8', 'f0', 'f33'])

    def shape(self, scal=True):
        r = self.r
        n = r.choice([0, 1, 1, 2, 2, 3, 6])
        dims = [r.choice(['1', '2', '3', '4', '0', '?', '?', '16', '1024', '4294967296', '99999999999999999999', '-1', '0x4', '[4]',
                          '[', 'x', '*', '2 ', ' 2']) if r.random() < 0.25 else str(r.choice([1, 2, 3, 4, 8])) for _ in range(n)]
        return ''.join(self._c(d) + self._c('x') for d in dims)

    def type(self):
        r = self.r
        self.depth += 1
        try:
            m = r.random()
            if self.depth > 4 or m < 0.3:
                return self._c(self.itype())
            if m < 0.4:
                return self._c(self.ftype())
            if m < 0.55:
                enc = (', ' + self.attr()) if r.random() < 0.2 else ''
                if r.random() < 0.1:
                    return self._c('tensor') + self._c('<') + self._c('*') + 'x' + self.type() + self._c('>')
                return self._c('tensor') + self._c('<') + self.shape() + self.type() + enc + self._c('>')
            if m < 0.65:
                lay = r.choice(['', '', ', ' + self.strided(), ', ' + self.affine_map(), ', ' + self.int_lit(),
                                ', ' + self.attr(), ', ' + self.strided() + ', ' + self.attr()])
                if r.random() < 0.1:
                    return 'memref<*x' + self.type() + lay + self._c('>')
                return self._c('memref') + self._c('<') + self.shape() + self.type() + lay + self._c('>')
            if m < 0.73:
                sc = r.choice(['', '', '[4]x', '[2]x[4]x', '[', '[]x', '[4x', '4]x'])
                return self._c('vector') + self._c('<') + self.shape() + sc + self.type() + self._c('>')
            if m < 0.78:
                return self._c('complex') + self._c('<') + self.type() + self._c('>')
            if m < 0.84:
                return self._c('tuple') + self._c('<') + ', '.join(self.type() for _ in range(r.choice([0, 1, 2, 3]))) + self._c('>')
            if m < 0.9:
                return self.func_type()
            if m < 0.93:
                return self._c('none')
            if m < 0.97:
                return self._c(r.choice(['!builtin.', '!', '!test.', '!llvm.', '!unknown_dialect.']) +
                               r.choice(['i32', 'index', 'integer', 'tensor', 'struct', 'ptr', 'type', 'x', 'float32', 'f32',
                                         'vector', 'memref', 'complex', 'tuple', 'function', 'int', 'bytes', 'string'])) + \
                    r.choice(['', '<' + self.attr() + '>', '<' + self.type() + '>', '<>', '<1>', '<"s">', '<[1, 2]>',
                              '<' + ', '.join(self.attr() for _ in range(r.choice([2, 3]))) + '>'])
            return self._c(r.choice(['!a', '!alias', '!0']))
        finally:
            self.depth -= 1

    def func_type(self):
        r = self.r
        ins = ', '.join(self.type() for _ in range(r.choice([0, 1, 1, 2, 3])))
        k = r.choice([0, 1, 1, 2])
        outs = ', '.join(self.type() for _ in range(k))
        if k != 1 or r.random() < 0.5:
            outs = self._c('(') + outs + self._c(')')
        return self._c('(') + ins + self._c(')') + ' ' + self._c('->') + ' ' + outs

    def strided(self):
        r = self.r
        n = r.choice([0, 1, 2, 3])
        st = ', '.join(self._c(r.choice(['1', '2', '?', '0', '-1', '99999999999999999999'])) for _ in range(n))
        off = r.choice(['', '', ', offset: 0', ', offset: ?', ', offset: -1', ', offset', ', offset: ', ', ofset: 1'])
        return self._c('strided') + self._c('<') + self._c('[') + st + self._c(']') + off + self._c('>')

    def affine_expr(self, d=0):
        r = self.r
        m = r.random()
        if d > 3 or m < 0.45:
            return self._c(r.choice(['d0', 'd1', 's0', 's1', 'd2', '0', '1', '2', '-1', '42', '9223372036854775807',
                                     '99999999999999999999', 'symbol(s0)', 'x', '%i', 'd0 d1']))
        if m < 0.85:
            op = self._c(r.choice(['+', '-', '*', 'floordiv', 'ceildiv', 'mod', '+', '*', '/', '%', '<', '==']))
            return self.affine_expr(d + 1) + ' ' + op + ' ' + self.affine_expr(d + 1)
        if m < 0.95:
            return self._c('(') + self.affine_expr(d + 1) + self._c(')')
        return self._c('-') + self.affine_expr(d + 1)

    def affine_map(self):
        r = self.r
        nd, ns = r.choice([0, 1, 2, 3]), r.choice([0, 0, 1, 2])
        dims = ', '.join(self._c(f'd{i}') for i in range(nd))
        syms = (self._c('[') + ', '.join(self._c(f's{i}') for i in range(ns)) + self._c(']')) if ns or r.random() < 0.1 else ''
        res = ', '.join(self.affine_expr() for _ in range(r.choice([0, 1, 1, 2, 3])))
        return (self._c('affine_map') + self._c('<') + self._c('(') + dims + self._c(')') + syms + ' ' + self._c('->') + ' ' +
                self._c('(') + res + self._c(')') + self._c('>'))

    def affine_set(self):
        r = self.r
        nd = r.choice([0, 1, 2])
        dims = ', '.join(f'd{i}' for i in range(nd))
        cs = ', '.join(self.affine_expr() + ' ' + self._c(r.choice(['>=', '==', '>=', '<=', '>', '='])) + ' ' + self._c('0')
                       for _ in range(r.choice([0, 1, 2])))
        return (self._c('affine_set') + self._c('<') + '(' + dims + ')' + r.choice(['', '[s0]']) + ' ' + self._c(':') + ' ' +
                self._c('(') + cs + self._c(')') + self._c('>'))

    def tensor_lit(self, d=0, fl=False):
        r = self.r
        m = r.random()
        if d > 3 or m < 0.45:
            if r.random() < 0.1:
                return self._c('(') + self.float_lit() + self._c(',') + self.float_lit() + self._c(')')
            return self._c(self.float_lit() if fl else r.choice([self.int_lit(), 'true', 'false']))
        n = r.choice([0, 1, 2, 2, 3, 4])
        return self._c('[') + self._c(', ').join(self.tensor_lit(d + 1, fl) for _ in range(n)) + self._c(']')

    def string_lit(self):
        r = self.r
        body = ''.join(r.choice(['a', 'b', ' ', 'xyz', '\\n', '\\t', '\\\\', '\\"', '\\00', '\\FF', '\\C3\\A9', '\\80', 'é', '你', '😀',
                                 '\\q', '\\', '\n', '\x00', '\\x41', '\\u0041', '\\0', '\\G0', "'", '//', '#', '{', '"'] if r.random() < 0.2
                                else ['a', 'b', 'c', ' ', '_', '.', '0', '\\n', '\\22', '\\00'])
                       for _ in range(r.choice([0, 1, 2, 3, 5, 8, 30])))
        return self._c('"') + body + self._c('"')

    def attr(self):
        r = self.r
        self.depth += 1
        try:
            m = r.random()
            if self.depth > 4:
                m *= 0.3
            if m < 0.12:
                t = r.choice(['', ' : ' + self.itype(), ' : ' + self.itype(), ' : ' + self.ftype(), ' : ' + self.type()])
                return self.int_lit() + (self._c(' :') + t[2:] if t else '')
            if m < 0.2:
                t = r.choice(['', ' : ' + self.ftype(), ' : ' + self.ftype(), ' : ' + self.itype(), ' : ' + self.type()])
                return self.float_lit() + t
            if m < 0.26:
                return self.string_lit() + r.choice(['', '', ' : ' + self.type()])
            if m < 0.3:
                return self._c(r.choice(['unit', 'true', 'false', 'none', 'loc(unknown)', 'index', 'i32']))
            if m < 0.42:
                fl = r.random() < 0.4
                lit = r.choice([self.tensor_lit(0, fl), self.tensor_lit(0, fl), '', self.string_lit(),
                                '"0x' + ''.join(r.choice('0123456789abcdefABCDEFg') for _ in range(r.choice([0, 1, 2, 8, 9, 16]))) + '"'])
                el = self.ftype() if fl and r.random() < 0.8 else self.type()
                ty = r.choice(['tensor', 'tensor', 'vector', 'memref']) + '<' + self.shape() + el + '>'
                if r.random() < 0.1:
                    ty = self.type()
                return self._c('dense') + self._c('<') + lit + self._c('>') + ' ' + self._c(':') + ' ' + ty
            if m < 0.5:
                fl = r.random() < 0.3
                el = self.ftype() if fl else self.itype()
                vals = ', '.join(self._c(self.float_lit() if fl else r.choice([self.int_lit(), 'true'])) for _ in range(r.choice([0, 1, 2, 3, 5])))
                return self._c('array') + self._c('<') + self._c(el) + (self._c(':') + ' ' + vals if vals or r.random() < 0.2 else '') + self._c('>')
            if m < 0.57:
                return self._c('[') + self._c(', ').join(self.attr() for _ in range(r.choice([0, 1, 2, 3]))) + self._c(']')
            if m < 0.64:
                return self.dict_attr()
            if m < 0.7:
                return self._c('@') + r.choice(['f', '"f"', 'f.g', '"a b"', '"\\22"', '1', '_', '"é"', '""']) + \
                    ''.join(self._c('::') + '@' + r.choice(['g', '"g"', '1']) for _ in range(r.choice([0, 0, 1, 2])))
            if m < 0.76:
                return self.affine_map() if r.random() < 0.7 else self.affine_set()
            if m < 0.8:
                return self.strided()
            if m < 0.84:
                strs = (self._c(',') + ' ').join(self.string_lit() for _ in range(r.choice([1, 2, 2, 2, 2, 3, 0])))
                return self._c('opaque') + self._c('<') + strs + self._c('>') + r.choice(['', ' : ' + self.type()])
            if m < 0.88:
                return self._c('dense_resource') + self._c('<') + self._c(r.choice(['r', 'blob1', '"r"', '1', 'r_1'])) + self._c('>') + \
                    ' : ' + self.type()
            if m < 0.92:
                return self.loc()
            if m < 0.97:
                name = r.choice(['#builtin.', '#', '#test.', '#llvm.', '#unknown_dialect.']) + \
                    r.choice(['int', 'unit', 'string', 'array', 'dict', 'float', 'float_data', 'symbol_ref', 'dense', 'dense_array',
                              'signedness', 'fn', 'loc', 'affine_map', 'index', 'bytes', 'none', 'complex', 'x', 'param', 'fastmath',
                              'linkage', 'file_line_loc', 'unknown_loc', 'stride', 'strided_layout', 'opaque', 'memory_space'])
                return self._c(name) + r.choice(['', '<' + self.attr() + '>', '<>', '<1>', '<' + self.type() + '>', '<"s">',
                                                 '<signed>', '<unsigned>', '<signless>', '<fast>', '<' + self.int_lit() + '>',
                                                 '<' + ', '.join(self.attr() for _ in range(r.choice([2, 3]))) + '>'])
            if m < 0.985 and self.pool['frags']:
                return r.choice(self.pool['frags'])
            return self.type()
        finally:
            self.depth -= 1

    def loc(self):
        r = self.r
        self.depth += 1
        try:
            m = r.random()
            if self.depth > 4 or m < 0.3:
                inner = self._c('unknown')
            elif m < 0.55:
                inner = self.string_lit() + self._c(':') + self.int_lit() + self._c(':') + self.int_lit() + \
                    r.choice(['', '', ' to :3', ' to 2:3', ' to'])
            elif m < 0.7:
                inner = self.string_lit() + r.choice(['', '(' + self.loc()[3:]])
            elif m < 0.8:
                inner = self._c('fused') + r.choice(['', '<' + self.attr() + '>']) + self._c('[') + \
                    ', '.join(self.loc()[4:-1] for _ in range(r.choice([0, 1, 2]))) + self._c(']')
            elif m < 0.9:
                inner = self._c('callsite') + self._c('(') + self.loc()[4:-1] + ' ' + self._c('at') + ' ' + self.loc()[4:-1] + self._c(')')
            else:
                inner = self.attr()
            return self._c('loc') + self._c('(') + inner + self._c(')')
        finally:
            self.depth -= 1

    def dict_attr(self):
        r = self.r
        ents = []
        for _ in range(r.choice([0, 1, 1, 2, 3])):
            k = self._c(r.choice(['a', 'b', 'value', 'sym_name', 'function_type', '"k"', '"a b"', 'a.b', 'operandSegmentSizes',
                                  'resultSegmentSizes', 'predicate', 'callee', 'a', '1', '"', 'true', 'dense']))
            ents.append(k if r.random() < 0.1 else k + ' ' + self._c('=') + ' ' + self.attr())
        return self._c('{') + self._c(', ').join(ents) + self._c('}')

    def op(self, depth=0, vals=None, blocks=None):
        r = self.r
        vals = vals if vals is not None else []
        name = r.choice(['"test.op"', '"test.op"', '"test.termop"', '"unknown.op"', '"builtin.module"', '"func.func"',
                         '"arith.constant"', '"arith.addi"', '"builtin.unrealized_conversion_cast"', '"test.pureop"', '"scf.yield"',
                         '"cf.br"', '"func.return"', '"memref.alloc"', '"a"', '""', '"test."', '".op"', '"test.op.x"'])
        nres = r.choice([0, 0, 1, 1, 2, 3])
        res = []
        for _ in range(nres):
            n = r.choice(['%0', '%1', '%a', '%b', '%c', '%x', '%arg0', '%-', '%a.b', '%_', '%9999999999'])
            res.append(n + (r.choice([':1', ':2', ':0', ':99999999999', ':x', ':-1']) if r.random() < 0.15 else ''))
        nops = r.choice([0, 0, 1, 2, 3])
        ops_ = [r.choice(vals + ['%0', '%a', '%u', '%a#0', '%a#1', '%a#99999999999', '%a#x']) for _ in range(nops)]
        s = ''
        if res:
            s += self._c(', ').join(self._c(x) for x in res) + ' ' + self._c('=') + ' '
        s += self._c(name) + self._c('(') + self._c(', ').join(self._c(o) for o in ops_) + self._c(')')
        if r.random() < 0.1:
            s += ' ' + self._c('[') + ', '.join(self._c(r.choice((blocks or []) + ['^bb0', '^bb1', '^42', '^-', '^a.b'])) for _ in range(r.choice([0, 1, 2]))) + self._c(']')
        if r.random() < 0.3:
            s += ' ' + self._c('<') + self.dict_attr() + self._c('>')
        if depth < 3 and r.random() < 0.2:
            s += ' ' + self._c('(') + ', '.join(self.region(depth + 1, list(vals)) for _ in range(r.choice([0, 1, 1, 2]))) + self._c(')')
        if r.random() < 0.5:
            s += ' ' + self.dict_attr()
        optys = ', '.join(self.type() for _ in ops_) if r.random() < 0.9 else self.type()
        rtys = ', '.join(self.type() for _ in res)
        if len(res) != 1 or r.random() < 0.5:
            rtys = self._c('(') + rtys + self._c(')')
        s += ' ' + self._c(':') + ' ' + self._c('(') + optys + self._c(')') + ' ' + self._c('->') + ' ' + rtys
        if r.random() < 0.1:
            s += ' ' + self.loc()
        vals.extend(x.split(':')[0] for x in res)
        return s

    def region(self, depth, vals):
        r = self.r
        out = self._c('{') + '\n'
        nb = r.choice([0, 1, 1, 1, 2, 3])
        names = [r.choice(['^bb0', '^bb1', '^bb2', '^a', '^42', '^-', '^_', '^bb', '^0']) for _ in range(nb)]
        for i, bn in enumerate(names):
            if i > 0 or r.random() < 0.6:
                args = ''
                if r.random() < 0.6:
                    an = [r.choice(['%x', '%y', '%arg0', '%0', '%a']) for _ in range(r.choice([0, 1, 2]))]
                    args = self._c('(') + ', '.join(a + ' ' + self._c(':') + ' ' + self.type() + r.choice(['', '', ' ' + self.loc()]) for a in an) + self._c(')')
                    vals.extend(an)
                out += self._c(bn) + args + self._c(':') + '\n'
            for _ in range(r.choice([0, 1, 1, 2, 3])):
                out += '  ' * depth + self.op(depth, vals, names) + '\n'
        return out + self._c('}')

    def module(self):
        r = self.r
        out = []
        vals = []
        for _ in range(r.choice([1, 1, 2, 3, 5])):
            m = r.random()
            if m < 0.1:
                out.append(self._c(r.choice(['#a', '#alias', '#0', '#a.b', '#map'])) + ' ' + self._c('=') + ' ' + self.attr())
            elif m < 0.18:
                out.append(self._c(r.choice(['!a', '!alias', '!0', '!a.b'])) + ' ' + self._c('=') + ' ' + self.type())
            elif m < 0.24:
                key = r.choice(['r', 'blob1', '"r"', '1'])
                val = r.choice(['"0x0800000001000000"', '"0x08"', '"0x"', '"0xZZ"', '""', '"0x040000000"', '1', self.string_lit()])
                d = r.choice(['builtin', 'builtin', 'test', 'unknown', 'func', '"builtin"'])
                kind = r.choice(['dialect_resources', 'dialect_resources', 'external_resources', 'resources'])
                out.append(self._c('{-#') + ' ' + self._c(kind) + self._c(':') + ' ' + self._c('{') + ' ' + self._c(d) + self._c(':') + ' ' +
                           self._c('{') + ' ' + self._c(key) + self._c(':') + ' ' + val + ' ' + self._c('}') + ' ' + self._c('}') + ' ' + self._c('#-}'))
            else:
                out.append(self.op(0, vals))
        text = '\n'.join(out)
        if r.random() < 0.3:
            text = self._c('"builtin.module"') + '() (' + '{\n' + text + '\n' + self._c('}') + ') : () -> ()'
        elif r.random() < 0.15:
            text = 'builtin.module ' + r.choice(['', '@m ', 'attributes {a} ']) + '{\n' + text + '\n}'
        return text


def soup(rng, pool) -> str:
    return Soup(rng, err=rng.choice([0.0, 0.01, 0.03, 0.03, 0.08, 0.2]), pool=pool).module()


def attr_soup(rng, pool) -> str:
    """a single attribute or type in a fixed generic-op frame"""
    g = Soup(rng, err=rng.choice([0.0, 0.02, 0.05, 0.1]), pool=pool)
    m = rng.random()
    if m < 0.45:
        return '"test.op"() {a = ' + g.attr() + '} : () -> ()'
    if m < 0.6:
        return '"test.op"() <{a = ' + g.attr() + '}> : () -> ()'
    if m < 0.85:
        return '%0 = "test.op"() : () -> ' + g.type()
    if m < 0.93:
        return '#a = ' + g.attr() + '\n"test.op"() {a = #a} : () -> ()'
    return '"test.op"() : () -> () ' + g.loc()


# ------------------------------------------------------------------ splice
def splice(rng, pool) -> str:
    n = rng.choice([1, 2, 2, 3, 4, 6])
    lines = [rng.choice(pool['lines']) for _ in range(n)]
    m = rng.random()
    if m < 0.3:
        return '\n'.join(lines)
    if m < 0.6:
        return 'builtin.module {\n' + '\n'.join(lines) + '\n}'
    if m < 0.8:
        return 'func.func @f(%arg0 : i32, %arg1 : index, %0 : f32, %1 : memref<2xf32>) {\n' + '\n'.join(lines) + '\n  func.return\n}'
    # token-level crossover of two lines
    a, b = lines[0], rng.choice(pool['lines'])
    sa, sb = token_spans(a), token_spans(b)
    if sa and sb:
        return a[:rng.choice(sa)[1]] + ' ' + b[rng.choice(sb)[0]:]
    return a + b


# ------------------------------------------------------------------ pump families (scaling probe)
# (name, prefix, unit, suffix, kmax): text = prefix + unit*k + suffix, k doubles along a ladder up to kmax
PUMPS = [
    ('str-unterminated', '"', 'a', '', 1 << 16),
    ('str-unterminated-nl', '"test.op"() {a = "', 'ab', '\n} : () -> ()', 1 << 15),
    ('str-bad-escape', '"', 'a', '\\q"', 1 << 16),
    ('str-escapes', '"test.op"() {a = "', '\\00', '"} : () -> ()', 1 << 14),
    ('str-escapes-unterminated', '"', '\\\\', '', 1 << 15),
    ('str-mixed-unterminated', '"', 'a\\n', '', 1 << 15),
    ('str-terminated', '"test.op"() {a = "', 'a', '"} : () -> ()', 1 << 16),
    ('at-str-unterminated', '@"', 'a', '', 1 << 16),
    ('comment', '//', 'a ', '\n"test.op"() : () -> ()', 1 << 16),
    ('comments', '', '// c\n', '"test.op"() : () -> ()', 1 << 14),
    ('whitespace', '', ' \n\t', '"test.op"() : () -> ()', 1 << 15),
    ('slashes', '', '/', '', 1 << 15),
    ('ident', '"test.op"() {', 'a', '} : () -> ()', 1 << 16),
    ('ident-dots', '', 'a.', '', 1 << 15),
    ('percent', '%', 'a-', ' = "test.op"() : () -> i32', 1 << 15),
    ('digits', '"test.op"() {a = ', '9', '} : () -> ()', 1 << 16),
    ('digits-typed', '"test.op"() {a = ', '9', ' : i64} : () -> ()', 1 << 14),
    ('hexdigits', '"test.op"() {a = 0x', 'F', ' : i64} : () -> ()', 1 << 15),
    ('float-digits', '"test.op"() {a = 1.', '9', ' : f32} : () -> ()', 1 << 15),
    ('float-exp', '"test.op"() {a = 1.0e', '9', ' : f32} : () -> ()', 1 << 15),
    ('minus', '"test.op"() {a = ', '-', '1} : () -> ()', 1 << 14),
    ('paren', '"test.op"() : () -> ', '(', '', 1 << 14),
    ('paren-balanced', '"test.op"() : () -> ', '(', ') -> ()', 1 << 13),
    ('square-attr', '"test.op"() {a = ', '[', '} : () -> ()', 1 << 14),
    ('square-attr-balanced', '"test.op"() {a = ', '[', None, 1 << 13),  # suffix None: mirrored closers
    ('brace-attr', '"test.op"() {a = ', '{b = ', '} : () -> ()', 1 << 13),
    ('dense-nest', '"test.op"() {a = dense<', '[', '> : tensor<1xi32>} : () -> ()', 1 << 14),
    ('dense-list', '"test.op"() {a = dense<[', '1, ', '1]> : tensor<2xi32>} : () -> ()', 1 << 14),
    ('dense-hex', '"test.op"() {a = dense<"0x', '00', '"> : tensor<2xi8>} : () -> ()', 1 << 15),
    ('array-list', '"test.op"() {a = array<i32: ', '1, ', '1>} : () -> ()', 1 << 14),
    ('tensor-nest', '"test.op"() : () -> ', 'tensor<1x', 'i32', 1 << 13),
    ('tuple-nest', '"test.op"() : () -> ', 'tuple<', 'i32', 1 << 13),
    ('shape-dims', '"test.op"() : () -> tensor<', '1x', 'i32>', 1 << 14),
    ('shape-xs', '"test.op"() : () -> tensor<1', 'x', 'i32>', 1 << 15),
    ('func-type-args', '"test.op"() : (', 'i32, ', 'i32) -> ()', 1 << 14),
    ('func-type-nest', '"test.op"() : () -> ', '() -> ', '()', 1 << 13),
    ('operands', '%0 = "test.op"() : () -> i32\n"test.op"(', '%0, ', '%0) : () -> ()', 1 << 14),
    ('results', '', '%a, ', '%a = "test.op"() : () -> ()', 1 << 14),
    ('result-tuple', '%a:', '9', ' = "test.op"() : () -> ()', 1 << 12),
    ('ops', '', '"test.op"() : () -> ()\n', '', 1 << 13),
    ('ops-values', '%0 = "test.op"() : () -> i32\n', '%0 = "test.op"(%0) : (i32) -> i32\n', '', 1 << 12),
    ('ops-defs', '', '%a = "test.op"() : () -> i32\n', '', 1 << 12),
    ('region-nest', '', '"test.op"() ({\n', '', 1 << 12),
    ('region-nest-balanced', '', '"test.op"() ({\n', None, 1 << 11),
    ('region-siblings', '"test.op"() (', '{}, ', '{}) : () -> ()', 1 << 13),
    ('regions-with-values', '%0 = "test.op"() : () -> i32\n', '"test.op"() ({ %1 = "test.op"(%0) : (i32) -> i32 }) : () -> ()\n', '', 1 << 11),
    ('blocks', '"test.op"() ({\n', '^a:\n', '}) : () -> ()', 1 << 13),
    ('block-fwd-refs', '"test.op"() ({\n"test.termop"() [', '^a, ', '^a] : () -> ()\n}) : () -> ()', 1 << 13),
    ('succ-distinct', '"test.op"() ({\n"test.termop"() [', None, '^z] : () -> ()\n}) : () -> ()', 1 << 12),  # unit None: numbered
    ('block-args', '"test.op"() ({\n^bb0(', None, '%z : i32):\n}) : () -> ()', 1 << 12),
    ('dict-keys', '"test.op"() {', None, 'z} : () -> ()', 1 << 12),
    ('props-keys', '"test.op"() <{', None, 'z}> : () -> ()', 1 << 12),
    ('aliases', '', None, '"test.op"() : () -> ()', 1 << 12),
    ('alias-chain', '#a0 = 1\n', None, '"test.op"() {a = #a0} : () -> ()', 1 << 11),
    ('fwd-values', '"test.op"(', None, '%z) : () -> ()', 1 << 12),
    ('affine-dims', '"test.op"() {a = affine_map<(', None, 'z) -> (z)>} : () -> ()', 1 << 12),
    ('affine-sum', '"test.op"() {a = affine_map<(d0) -> (', 'd0 + ', 'd0)>} : () -> ()', 1 << 13),
    ('affine-mul', '"test.op"() {a = affine_map<(d0) -> (', '2 * ', 'd0)>} : () -> ()', 1 << 13),
    ('affine-paren', '"test.op"() {a = affine_map<(d0) -> (', '(', 'd0)>} : () -> ()', 1 << 13),
    ('affine-neg', '"test.op"() {a = affine_map<(d0) -> (', '-', 'd0)>} : () -> ()', 1 << 13),
    ('affine-results', '"test.op"() {a = affine_map<(d0) -> (', 'd0, ', 'd0)>} : () -> ()', 1 << 13),
    ('affine-floordiv', '"test.op"() {a = affine_map<(d0) -> (', 'd0 floordiv 2 + ', 'd0)>} : () -> ()', 1 << 12),
    ('strided-list', '"test.op"() : () -> memref<2xi32, strided<[', '1, ', '1]>>', 1 << 13),
    ('symref-nest', '"test.op"() {a = @a', '::@a', '} : () -> ()', 1 << 13),
    ('loc-fused', '"test.op"() : () -> () loc(fused[', 'unknown, ', 'unknown])', 1 << 13),
    ('loc-callsite', '"test.op"() : () -> () loc(', 'callsite(unknown at ', 'unknown', 1 << 12),
    ('loc-name-nest', '"test.op"() : () -> () loc(', '"a"(', 'unknown', 1 << 12),
    ('opaque-body', '"test.op"() {a = #foo.bar<', 'a ', '>} : () -> ()', 1 << 15),
    ('opaque-nest', '"test.op"() {a = #foo.bar<', '<', '} : () -> ()', 1 << 14),
    ('opaque-nest-balanced', '"test.op"() {a = #foo.bar<', '<', None, 1 << 13),
    ('opaque-str', '"test.op"() {a = #foo.bar<"', 'a', '} : () -> ()', 1 << 15),
    ('type-opaque-body', '"test.op"() : () -> !foo.bar<', '[x]', '>', 1 << 14),
    ('resource', '"test.op"() : () -> ()\n{-# dialect_resources: { builtin: { r: "0x08000000', '00', '" } } #-}', 1 << 14),
    ('resources', '"test.op"() : () -> ()\n{-# dialect_resources: { builtin: { ', None, 'z: "0x0800000000" } } #-}', 1 << 11),
    ('metadata-open', '', '{-# ', '', 1 << 13),
    ('custom-func-args', 'func.func @f(', None, '%z : i32) { func.return }', 1 << 11),
    ('custom-module-nest', '', 'builtin.module {\n', '', 1 << 11),
    ('custom-module-nest-balanced', '', 'builtin.module {\n', None, 1 << 11),
    ('custom-arith-chain', 'func.func @f(%0 : i32) {\n', '%0 = arith.addi %0, %0 : i32\n', 'func.return }', 1 << 11),
    ('custom-scf-nest', 'func.func @f(%0 : index) {\n', 'scf.for %i = %0 to %0 step %0 {\n', '', 1 << 10),
    ('nonascii-idents', '', 'é ', '', 1 << 14),
    ('nonascii-digits', '"test.op"() {a = ', '٣', '} : () -> ()', 1 << 12),
    ('nul', '', '\x00', '', 1 << 14),
    ('error-context-long-line', '"test.op"() {a = [', '1, ', '@} : () -> ()', 1 << 15),
    ('error-context-many-lines', '', '"test.op"() : () -> ()\n', '@', 1 << 13),
    ('value-name-suffix-groups', '%a', '_1', 'x = "test.op"() : () -> i32', 1 << 16),
    ('value-name-suffix-groups-match', '%a', '_1', ' = "test.op"() : () -> i32', 1 << 16),
    ('block-name-suffix-groups', '"test.op"() ({\n^a', '_1', 'x:\n}) : () -> ()', 1 << 16),
    ('block-arg-name-suffix-groups', '"test.op"() ({\n^bb0(%a', '_1', 'x : i32):\n}) : () -> ()', 1 << 16),
]

_MIRROR = {'[': ']', '(': ')', '{': '}', '<': '>'}


def pump_text(fam, k: int) -> str:
    name, prefix, unit, suffix, _ = fam
    if name.startswith('dag:'):
        return dag_text(prefix, suffix, k)
    if unit is None:  # numbered distinct items
        item = {'succ-distinct': '^b{i}, ', 'block-args': '%a{i} : i32, ', 'dict-keys': 'k{i}, ', 'props-keys': 'k{i}, ',
                'aliases': '#a{i} = {i}\n', 'alias-chain': '#a{j} = [#a{i}]\n', 'fwd-values': '%v{i}, ',
                'affine-dims': 'd{i}, ', 'resources': 'r{i}: "0x0800000000", ', 'custom-func-args': '%a{i} : i32, '}[name]
        body = ''.join(item.format(i=i, j=i + 1) for i in range(k))
        if name == 'alias-chain':
            suffix = '"test.op"() {a = #a%d} : () -> ()' % k
        return prefix + body + suffix
    if suffix is None:  # mirrored closers
        if name == 'square-attr-balanced':
            return prefix + '[' * k + ']' * k + '} : () -> ()'
        if name == 'region-nest-balanced':
            return prefix + unit * k + '}) : () -> ()\n' * k
        if name == 'opaque-nest-balanced':
            return prefix + '<' * k + '>' * k + '>} : () -> ()'
        if name == 'custom-module-nest-balanced':
            return prefix + unit * k + '}\n' * k
        raise KeyError(name)
    return prefix + unit * k + suffix


def random_pump(rng, pool):
    """a random repetition family: (name, prefix, unit, suffix, kmax) with unit from the dictionary / corpus"""
    m = rng.random()
    if m < 0.5:
        unit = ''.join(rng.choice(TOK) for _ in range(rng.choice([1, 1, 2, 3])))
    elif m < 0.7 and pool['lines']:
        unit = rng.choice(pool['lines']) + '\n'
    elif m < 0.85 and pool['frags']:
        unit = rng.choice(pool['frags']) + rng.choice([', ', ' ', ''])
    else:
        unit = rand_char(rng) + rng.choice(['', ' ', rand_char(rng)])
    prefix = rng.choice(['', '', '"', '"test.op"() {a = ', '"test.op"() : () -> ', '"test.op"() {a = dense<', '"test.op"(',
                         '"test.op"() ({\n', '"test.op"() {a = affine_map<(d0) -> (', '#a = ', '!a = ', '%0 = ', '"test.op"() {a = #x.y<',
                         '"test.op"() : () -> () loc(', 'func.func @f(', '"test.op"() <{', '{-# ', '"test.op"() {a = "',
                         '"test.op"() {a = array<i32: ', '"test.op"() : () -> tensor<', '"test.op"() : () -> memref<2xi32, '])
    suffix = rng.choice(['', '', '', '"', '} : () -> ()', ')', '>', ']', '\n', rng.choice(TOK)])
    if len(unit) > 4000:
        unit = unit[:4000]
    return ('rnd', prefix, unit, suffix, max(4, min(1 << 13, (1 << 16) // max(1, len(unit)))))


# ------------------------------------------------------------------ lexer pump matrix (token regexes: prefix, pumped unit, stopper)
LEX_PREFIX = ['', '"', '@"', '@', '%', '^', '#', '!', '1.', '0x', '1', '1e', '1.0e', '1.0e+', '//', 'a', 'a.', '-', '"\\', '"\\0',
              '{-#', '.', '..', '#-', '%a', '^1', '!a.', '0', '0.']
LEX_UNIT = ['a', '9', '0', '.', '-', ' ', '\\', '\\\\', '"', 'a.', '9.', 'e', 'x', '$', '_', 'é', '\n', '/', '#', '%', '\t', 'F',
            '\\n', '\\00', 'a\\', '٣', '\r', '\x0b', '+', 'e+', '9e', '._', '-$']
LEX_STOP = ['', '.', '"', '\n', '\\', '!', 'é', '\x00', ' ', 'e', 'x', '\\q', '-', '$', '9', 'a']


def lex_matrix_size():
    return len(LEX_PREFIX) * len(LEX_UNIT) * len(LEX_STOP)


def lex_matrix_family(i: int, big: bool):
    """i-th (prefix, unit, stopper) combination as a pump family with an explicit k list: small ks expose exponential
    blow-up of a token regex (2^k), the doubling big ks a polynomial one."""
    p = LEX_PREFIX[i % len(LEX_PREFIX)]
    i //= len(LEX_PREFIX)
    u = LEX_UNIT[i % len(LEX_UNIT)]
    i //= len(LEX_UNIT)
    st = LEX_STOP[i % len(LEX_STOP)]
    ks = [4096, 8192, 16384] if big else [20, 24, 28]
    return ('lex:' + repr(p) + '+' + repr(u) + '*k+' + repr(st), p, u, st, ks)


# ------------------------------------------------------------------ literal x type matrix (builtin value construction, tier A)
LIT_TYPES = ['i1', 'i8', 'i16', 'i32', 'i64', 'si8', 'ui8', 'si64', 'ui64', 'i128', 'ui65', 'i0', 'si0', 'ui0', 'ui20000', 'i7', 'index', 'i1000', 'si4096',
             'f16', 'bf16', 'f32', 'f64', 'f80', 'f128', 'tf32', 'f8E4M3FN', 'f8E5M2', 'f8E4M3', 'f8E5M2FNUZ', 'f8E4M3FNUZ',
             'f8E4M3B11FNUZ', 'f8E3M4', 'f8E8M0FNU', 'f6E2M3FN', 'f6E3M2FN', 'f4E2M1FN', 'complex<f32>', 'complex<i32>', 'complex<f16>',
             'complex<i128>', 'none', 'tensor<1xi8>', '!test.type<"x">']
LIT_VALUES = ['0', '1', '-1', '2', '255', '256', '-129', '2147483648', '18446744073709551616', '-9223372036854775809',
              '9' * 40, '9' * 320, 'true', 'false', '0.0', '-0.0', '1.5', '65504.0', '65536.0', '3.4028235e38', '3.5e38', '1e39',
              '1.7976931348623157e308', '1e999', '-1e999', '5e-324', '0x0', '0x7C00', '0xFFFF', '0x7FC00000', '0xFFFFFFFF',
              '0x7FF8000000000000', '0xFFFFFFFFFFFFFFFF', '0x1FFFFFFFFFFFFFFFF', '0x' + 'F' * 40, '(1,2)', '(1.0,2.0)', '(1,2.0)', '(true,false)',
              '(99999999999,1)', '(1e39,0.0)', '"0x00"', '"0x0000000000000000"', '"0xZZ"', '""']
LIT_CONTEXTS = ['"test.op"() {{a = {v} : {t}}} : () -> ()', '"test.op"() {{a = array<{t}: {v}>}} : () -> ()',
                '"test.op"() {{a = array<{t}: {v}, {v}>}} : () -> ()', '"test.op"() {{a = dense<{v}> : tensor<2x{t}>}} : () -> ()',
                '"test.op"() {{a = dense<[{v}, {v}]> : tensor<2x{t}>}} : () -> ()', '"test.op"() {{a = dense<{v}> : vector<{t}>}} : () -> ()',
                '"test.op"() {{a = dense<[[{v}], [{v}]]> : memref<2x1x{t}>}} : () -> ()', '%0 = "test.op"() : () -> tensor<{v}x{t}>',
                '"test.op"() <{{a = {v} : {t}}}> : () -> ()', '"test.op"() {{a = [{v} : {t}, [{v} : {t}]], b = {{c = {v} : {t}}}}} : () -> ()',
                '%0 = arith.constant {v} : {t}', '"test.op"() {{a = #builtin.int<{v}>, b = #builtin.float_data<{v}>}} : () -> ()']


def lit_matrix_size():
    return len(LIT_TYPES) * len(LIT_VALUES) * len(LIT_CONTEXTS)


def lit_matrix_text(i: int) -> str:
    t = LIT_TYPES[i % len(LIT_TYPES)]
    i //= len(LIT_TYPES)
    v = LIT_VALUES[i % len(LIT_VALUES)]
    i //= len(LIT_VALUES)
    return LIT_CONTEXTS[i % len(LIT_CONTEXTS)].format(v=v, t=t)


# ------------------------------------------------------------------ end-of-input matrix: the text ENDS in a proper prefix of a token
EOF_CONTEXTS = ['', '"test.op"() {value = ', '"test.op"() <{value = ', '"test.op"() : () -> ', '"test.op"(', '"test.op"(%0, ',
                '"test.op"() : () -> tensor<', '"test.op"() : () -> tensor<2x', '"test.op"() : () -> memref<2xi32, ',
                '"test.op"() : () -> vector<[', '"test.op"() : () -> () loc(', '"test.op"() : () -> () loc("f":', '"test.op"() {a = dense<',
                '"test.op"() {a = dense<[1, ', '"test.op"() {a = array<i32: ', '"test.op"() {a = array<f32: ',
                '"test.op"() {a = affine_map<(d0) -> (', '"test.op"() {a = strided<[', '"test.op"() {a = [', '"test.op"() {a = {b = ',
                '"test.op"() {a = 1 : ', '"test.op"() {a = @f::', '"test.op"() {a = #builtin.int<', '"test.op"() {a = opaque<',
                '%0 = ', '%0:', '"test.op"() ({\n', '"test.op"() ({\n^bb0(%a : ', '"test.op"() [', '#a = ', '!a = ',
                '{-# dialect_resources: { builtin: { r: ', 'func.func @f(%a : ', 'builtin.module {\n%0 = arith.constant ',
                '%0 = "test.op"() : () -> i32\n"test.op"(%0) : (', '"test.op"() {a = dense_resource<', '"test.op"() {"']
EOF_PREFIXES = ['0', '0x', '0X', '0x1', '0xF', '00', '1', '1.', '1.5', '1.e', '1.0e', '1.0e+', '1.0e-', '1.0e+1', '1e', '-', '-0', '-0x', '-1.',
                '"', '"\\', '"\\4', '"\\4F', '"\\n', '"\\"', '"a', '"a\\', '"\n', '""', '@', '@"', '@"a', '@"\\', '@a', '@a:', '@a::', '@a::@',
                '^', '^b', '^4', '%', '%a', '%4', '%a#', '%a#1', '%a:', '%a:1', '#', '#a', '#a.', '#a.b', '#a.b<', '#-', '#-}', '!', '!a',
                '!a.', '!a.b<', ':', '::', '.', '..', '...', '<', '<{', '{', '{-', '{-#', '(', '[', ',', '=', '->', '/', '//', '// c',
                'a', 'a.', 'x', '2x', '2x?', '?', '?x', '*', '*x', 'i', 'i3', 'si', 'f', 'f3', 'bf', 'tensor', 'tensor<', 'dense<"0x', 'loc',
                'loc(', 'unit', 'true', 'affine_map<', 'array<', 'array<i32', 'array<i32:', '\\', 'é', '٣', '\x00', ' ', '\n', '\t', '\r']


def eof_matrix_size():
    return len(EOF_CONTEXTS) * len(EOF_PREFIXES)


def eof_matrix_text(i: int) -> str:
    return EOF_CONTEXTS[i % len(EOF_CONTEXTS)] + EOF_PREFIXES[i // len(EOF_CONTEXTS) % len(EOF_PREFIXES)]


_NUMSTR = re.compile(r'"(?:[^"\\\n]|\\.)*"|0[xX][0-9a-fA-F]+|\d+\.\d*(?:[eE][+-]?\d+)?|\d+')


def truncation_points(s: str):
    """every token boundary of s, plus cuts inside numeric tokens (every position) and string tokens (after the quote,
    after the first character, after every backslash and the character following it, before the closing quote)"""
    pts = set()
    for a, b in token_spans(s):
        pts.add(a)
        pts.add(b)
    for m in _NUMSTR.finditer(s):
        a, b = m.start(), m.end()
        if s[a] == '"':
            pts.update(p for p in (a + 1, a + 2, b - 1) if a < p < b)
            for k in range(a + 1, b - 1):
                if s[k] == '\\':
                    pts.update(p for p in (k + 1, k + 2, k + 3) if p < b)
        elif b - a <= 24:
            pts.update(range(a + 1, b))
        else:
            pts.update((a + 1, a + 2, a + 3, b - 1))
    pts.discard(0)
    pts.discard(len(s))
    return sorted(pts)


# ------------------------------------------------------------------ compact DAGs: source of size N whose printed form has 2^N nodes
DAG_CHAINS = {
    'tuple': ('!{p}0 = i32\n', '!{p}{i} = tuple<!{p}{j}, !{p}{j}>\n', '!{p}{n}'),
    'func': ('!{p}0 = i32\n', '!{p}{i} = (!{p}{j}) -> !{p}{j}\n', '!{p}{n}'),
    'array': ('#{p}0 = 1 : i32\n', '#{p}{i} = [#{p}{j}, #{p}{j}]\n', '#{p}{n}'),
    'dict': ('#{p}0 = 1 : i32\n', '#{p}{i} = {{x = #{p}{j}, y = #{p}{j}}}\n', '#{p}{n}'),
    'array-of-type': ('#{p}0 = i32\n', '#{p}{i} = [#{p}{j}, #{p}{j}]\n', '#{p}{n}'),
}
# {X}: last alias of the chain; {Y}: last alias of a second, separately built but structurally equal chain
DAG_TYPE_USES = {
    'result': '%0 = "test.op"() : () -> {X}',
    'result-operand': '%0 = "test.op"() : () -> {X}\n"test.op"(%0) : ({X}) -> ()',
    'result-8-uses': '%0 = "test.op"() : () -> {X}\n' + '"test.op"(%0, %0) : ({X}, {X}) -> ()\n' * 4,
    'forward-operand': '"test.op"() ({{\n"test.op"(%0) : ({X}) -> ()\n%0 = "test.op"() : () -> {X}\n}}) : () -> ()',
    'operand-equal-chain': '%0 = "test.op"() : () -> {X}\n"test.op"(%0) : ({Y}) -> ()',
    'block-arg': '"test.op"() ({{\n^bb0(%a : {X}):\n  "test.op"(%a) : ({X}) -> ()\n}}) : () -> ()',
    'successor-arg': '"test.op"() ({{\n^bb0(%a : {X}):\n  "test.termop"(%a) [^bb0] : ({X}) -> ()\n}}) : () -> ()',
    'attr-value': '"test.op"() {{a = {X}}} : () -> ()',
    'prop-value': '"test.op"() <{{a = {X}}}> : () -> ()',
    'attr-twice': '"test.op"() {{a = {X}, b = {X}}} : () -> ()\n"test.op"() {{a = {X}}} : () -> ()',
    'in-function-type': '"test.op"() {{a = ({X}) -> {X}}} : () -> ()',
    'tensor-element': '%0 = "test.op"() : () -> tensor<2x{X}>',
    'custom-func': 'func.func @f(%a : {X}) -> {X} {{\n  func.return %a : {X}\n}}',
    'custom-func-decl': 'func.func private @f({X}) -> {X}',
    'unrealized-cast': '%0 = "test.op"() : () -> {X}\n%1 = builtin.unrealized_conversion_cast %0 : {X} to {X}',
    'typed-attr': '"test.op"() {{a = 1 : {X}}} : () -> ()',
    'dense-type': '"test.op"() {{a = dense<1> : tensor<2x{X}>}} : () -> ()',
    'mismatch-diagnostic': '%0 = "test.op"() : () -> {X}\n"test.op"(%0) : (i32) -> ()',
}
DAG_ATTR_USES = {
    'attr-value': '"test.op"() {{a = {X}}} : () -> ()',
    'prop-value': '"test.op"() <{{a = {X}}}> : () -> ()',
    'attr-twice': '"test.op"() {{a = {X}, b = {X}}} : () -> ()\n"test.op"() {{a = {X}}} : () -> ()',
    'in-array': '"test.op"() {{a = [{X}, {X}]}} : () -> ()',
    'in-dict': '"test.op"() {{a = {{k = {X}}}}} : () -> ()',
    'custom-attr-dict': 'func.func private @f() attributes {{a = {X}}}',
    'module-attr': 'builtin.module attributes {{a = {X}}} {{\n}}',
    'loc-fused-metadata': '"test.op"() : () -> () loc(fused<{X}>[unknown])',
    'equal-chain-in-dict': '"test.op"() {{a = {X}, b = {Y}}} : () -> ()',
}
DAG_KS = [6, 9, 12, 15, 18, 21, 24, 27]  # +3 per step: an exponential (2^k) path grows 8x per step


def dag_families():
    fams = []
    for chain, (c0, ci, last) in DAG_CHAINS.items():
        uses = DAG_ATTR_USES if c0.startswith('#') else DAG_TYPE_USES
        for use in uses:
            fams.append((f'dag:{chain}:{use}', chain, None, use, list(DAG_KS)))
    return fams


def dag_text(chain: str, use: str, n: int) -> str:
    c0, ci, last = DAG_CHAINS[chain]
    uses = DAG_ATTR_USES if c0.startswith('#') else DAG_TYPE_USES
    tpl = uses[use]
    out = []
    for p in (('t', 'u') if '{Y}' in tpl else ('t',)):
        out.append(c0.format(p=p))
        out.extend(ci.format(p=p, i=i, j=i - 1) for i in range(1, n + 1))
    return ''.join(out) + tpl.format(X=last.format(p='t', n=n), Y=last.format(p='u', n=n)) + '\n'


# ------------------------------------------------------------------ affine expression matrix: huge literals x every operator x positions
AFF_CONSTS = ['0', '1', '-1', '7', '-7', '9007199254740993', '9' * 20, '-' + '9' * 20, '9' * 100, '9' * 400, '-' + '9' * 400, '9' * 1000]
AFF_OPS = ['+', '-', '*', 'floordiv', 'ceildiv', 'mod']
AFF_TEMPLATES_2 = ['{A} {O} {B}', '({A}) {O} ({B})', 'd0 + {A} {O} {B}']
AFF_TEMPLATES_1 = ['d0 {O} {A}', '{A} {O} d0', '(d0 + {A}) {O} {A}', 'd0 * {A} {O} {A}', 's0 {O} {A}', '{A} {O} s0', '{A} {O} {A} {O} {A}',
                   '-({A}) {O} 2', 'd0 {O} ({A} {O} 3)']
AFF_CONTEXTS = ['"test.op"() {{a = affine_map<(d0)[s0] -> ({E})>}} : () -> ()',
                '"test.op"() {{a = affine_set<(d0)[s0] : ({E} >= 0)>}} : () -> ()',
                '"test.op"() {{a = affine_set<(d0)[s0] : ({E} == 0, d0 >= 0)>}} : () -> ()',
                '%0 = "test.op"() : () -> memref<2xi32, affine_map<(d0)[s0] -> ({E})>>',
                '%0 = "test.op"() : () -> index\n%1 = affine.apply affine_map<(d0)[s0] -> ({E})> (%0)[%0]',
                '%0 = "test.op"() : () -> index\n%1 = affine.min affine_map<(d0)[s0] -> ({E}, 0)> (%0)[%0]',
                'func.func @f(%n : index) {{\n  affine.for %i = 0 to affine_map<(d0)[s0] -> ({E})>(%n)[%n] {{\n  }}\n  func.return\n}}',
                'func.func @f(%m : memref<8xf32>, %n : index) {{\n  %v = affine.load %m[{E2}] : memref<8xf32>\n  func.return\n}}']


def _aff_exprs():
    out = []
    for o in AFF_OPS:
        for t in AFF_TEMPLATES_2:
            for a in AFF_CONSTS:
                for b in AFF_CONSTS:
                    out.append(t.format(A=a, B=b, O=o))
        for t in AFF_TEMPLATES_1:
            for a in AFF_CONSTS:
                out.append(t.format(A=a, O=o))
    return out


_AFF_CACHE = []


def aff_matrix_size():
    if not _AFF_CACHE:
        _AFF_CACHE.extend(_aff_exprs())
    return len(_AFF_CACHE) * len(AFF_CONTEXTS)


def aff_matrix_text(i: int) -> str:
    aff_matrix_size()
    e = _AFF_CACHE[i % len(_AFF_CACHE)]
    ctx = AFF_CONTEXTS[i // len(_AFF_CACHE) % len(AFF_CONTEXTS)]
    return ctx.format(E=e, E2=e.replace('d0', '%n').replace('s0', '%n'))


def aff_bounds_texts():
    """affine.for with literal bounds / steps"""
    out = []
    for a in AFF_CONSTS:
        for b in AFF_CONSTS[:6] + AFF_CONSTS[8:]:
            out.append(f'func.func @f() {{\n  affine.for %i = {a} to {b} {{\n  }}\n  func.return\n}}')
            out.append(f'func.func @f() {{\n  affine.for %i = 0 to {a} step {b} {{\n  }}\n  func.return\n}}')
    return out
