"""Shared recursive generator of xDSL builtin attributes / types with boundary numerics (C06, C08; reusable).

Everything is built through the public constructors of ``xdsl.dialects.builtin`` and is *valid*: types where
the textual format expects types, static dense shapes, in-range integers, verifying attributes.  No wall-clock,
no hypothesis: all randomness comes from the ``random.Random`` handed in.

API
---
``AttrGen(rng, max_depth=3, avoid=())``
    ``.attr(depth=None)``       any builtin attribute (types included with some probability), nested <= depth
    ``.type(depth=None)``       any builtin type (int/float/index/none/complex/tuple/function/vector/tensor/memref...)
    ``.scalar_type()``, ``.int_type(max_width=128)``, ``.float_type(packable=False)``
    ``.integer_attr()``, ``.float_attr()``, ``.string_attr()``, ``.bytes_attr()``, ``.symbol_ref()``,
    ``.location(depth)``, ``.dense_elements()``, ``.dense_array()``, ``.affine_map_attr()``, ``.affine_set_attr()``,
    ``.array_attr(depth)``, ``.dict_attr(depth)``, ``.opaque_attr()``, ``.strided_layout()``, ``.unregistered()``,
    ``.dense_resource()`` ...   the per-class generators (all return an ``Attribute``)
    ``.text(kind)``             strings: kind in {"ascii","escapes","unicode","ident","any"}
    ``avoid``: iterable of feature names (see ``FEATURES``) the caller does not want to see, e.g. ``SAFE_AVOID`` gives
    only values that round-trip through text on the pinned tree (no non-ASCII strings, no NoneAttr in printed
    positions, no f80/f128 FloatAttr, no NaN/inf/hex elements in dense/array floats, ...).

Module-level helpers
    ``f64_bits(x)`` / ``f64_from_bits(u)``      bit pattern <-> python float (struct, independent of xDSL)
    ``boundary_ints(width, signedness_name)``   min/max/-1/0/1/2^(w-1)/2^w-1 ... valid for the given integer type
    ``boundary_floats(type_name)``              list of python floats (signed zeros, subnormals, max, NaN payloads, inf,
                                                values that need > 6 digits) meaningful for f16/bf16/f32/f64/f8*/tf32...
    ``walk(a)``                                 pre-order iterator over an attribute and all nested attributes,
                                                yielding ``(attr, parent, slot)``
    ``rebuild(a, f=None)``                      bottom-up reconstruction through the generic constructors
                                                (``ParametrizedAttribute.new`` / ``Data.new``); ``f(new, old)`` may
                                                replace any node - used for repairs and near-duplicates
    ``features(a)``                             set of FEATURES present in a value (what known-defect classifiers and
                                                coverage counters key on)
    ``near_duplicates(a, rng, k)``              up to k attributes that differ from ``a`` in exactly one leaf
                                                (sign of zero, NaN payload, +-1, width, signedness, one char, ...)
    ``depth_of(a)``                             nesting depth (0 for leaves)
    ``has_unordered_container(a)`` / ``rebuild_reordered(a, rng=None)``
                                                the same value built with the entries of every order-insensitive
                                                container (DictionaryAttr, set / dict payloads) inserted in another order
"""
from __future__ import annotations

import math
import struct

FEATURES = (
    "nonascii_string",       # StringAttr with a non-ASCII character in a generic attribute position
    "nonascii_strlit",       # non-ASCII text in a position parsed with parse_str_literal (dict key, loc file/name, opaque)
    "bytes_ascii",           # BytesAttr whose payload is pure ASCII (incl. empty) in a printed position
    "none_attr",             # NoneAttr in a position where it is printed (`none`)
    "f80_f128_value",        # FloatAttr of type f80 / f128
    "dense_float_hex",       # dense<> float element that is printed in hex (NaN, inf, large integral f32/f64)
    "dense_float_mixed_zero",  # dense<> float whose elements are all == but not bit-identical (0.0 / -0.0)
    "dense_complex_hex",     # dense<> complex float with NaN/inf component
    "array_float_hex",       # array<fN: ...> element that is printed in hex
    "fused_meta",            # FusedLoc with metadata
    "floatdata_repr",        # stand-alone FloatData whose python repr is no MLIR float literal (nan, inf, 1e+300)
    "unregistered",          # UnregisteredAttr (needs a context that allows unregistered dialects)
    "dense_resource",        # DenseResourceAttr (resource handles are process-global state)
    "memspace_layout",       # memref memory space that is itself a layout attribute while layout is absent (ambiguous text)
)
SAFE_AVOID = frozenset(FEATURES) - {"unregistered"}


def f64_bits(x: float) -> int:
    return struct.unpack("<Q", struct.pack("<d", x))[0]


def f64_from_bits(u: int) -> float:
    return struct.unpack("<d", struct.pack("<Q", u & (2 ** 64 - 1)))[0]


def _f32_from_bits(u):
    return struct.unpack("<f", struct.pack("<I", u & 0xFFFFFFFF))[0]


def _f16_from_bits(u):
    return struct.unpack("<e", struct.pack("<H", u & 0xFFFF))[0]


def _bf16_from_bits(u):
    return _f32_from_bits((u & 0xFFFF) << 16)


NAN_PAYLOADS_64 = [0x7FF8000000000000, 0xFFF8000000000000, 0x7FF8000000000001, 0x7FF0000000000001,
                   0x7FFFFFFFFFFFFFFF, 0xFFF4000000000000, 0x7FF8000020000000, 0x7FF9000000000000]

_COMMON = [0.0, -0.0, 1.0, -1.0, 0.5, 2.0, 0.1, -0.1, 1 / 3, 1.5, 3.0, 100.0, 65504.0, 448.0, 57344.0, 6.0, 7.5, 0.25,
           math.inf, -math.inf]
_F_BOUNDARY = {
    "f64": [5e-324, 2.2250738585072009e-308, 2.2250738585072014e-308, 1.7976931348623157e308, 1e22, 1e23, 1e16,
            9007199254740993.0, 123456789.0, 0.30000000000000004, 1e-7, 1.0000000000000002, 4294967296.0, 1e300, -1e-300],
    "f32": [_f32_from_bits(1), _f32_from_bits(0x007FFFFF), _f32_from_bits(0x00800000), _f32_from_bits(0x7F7FFFFF),
            _f32_from_bits(0x3F800001), 123456789.0, 16777216.0, 16777217.0, 1e9, 2147483648.0, 1e22, _f32_from_bits(0x4CEB79A3),
            _f32_from_bits(0x3DCCCCCD), _f32_from_bits(0x7FC00001), _f32_from_bits(0xFFC00000), _f32_from_bits(0x7FA00000)],
    "f16": [_f16_from_bits(1), _f16_from_bits(0x03FF), _f16_from_bits(0x0400), _f16_from_bits(0x7BFF), _f16_from_bits(0x3C01),
            _f16_from_bits(0x7E01), _f16_from_bits(0xFE00), 2049.0, 1e-7],
    "bf16": [_bf16_from_bits(1), _bf16_from_bits(0x007F), _bf16_from_bits(0x0080), _bf16_from_bits(0x7F7F), _bf16_from_bits(0x3F81),
             _bf16_from_bits(0x7FC1), _bf16_from_bits(0xFFC0), 3.3895313892515355e38, 1e-40],
}


def boundary_floats(type_name: str) -> list[float]:
    """Python floats worth trying for a float type (the constructor rounds them to the type's precision)."""
    out = list(_COMMON) + [f64_from_bits(u) for u in NAN_PAYLOADS_64]
    out += _F_BOUNDARY.get(type_name, [])
    if type_name not in _F_BOUNDARY:  # reduced precision family, tf32, f80, f128: small dyadic grid + extremes
        out += [2.0 ** e for e in (-10, -9, -7, -6, -3, -2, 3, 4, 5, 7, 8, 15, 16, 100, -100, 127, -127)]
        out += [1.75, 0.875, 0.4375, 240.0, 28.0, 0.0625, 0.001953125, 1.0009765625, 3.3895313892515355e38]
    return out


def boundary_ints(width: int, signedness: str) -> list[int]:
    """Values valid for an IntegerType of this width/signedness ("signless" accepts signed and unsigned range)."""
    if width == 0:
        return [0]
    smin, smax, umax = -(2 ** (width - 1)), 2 ** (width - 1) - 1, 2 ** width - 1
    if signedness == "signed":
        c = [0, 1, -1, smin, smax, smin + 1, smax - 1]
        lo, hi = smin, smax
    elif signedness == "unsigned":
        c = [0, 1, umax, umax - 1, smax, smax + 1]
        lo, hi = 0, umax
    else:
        c = [0, 1, -1, smin, smax, umax, smax + 1, umax - 1, smin + 1]
        lo, hi = smin, umax
    return sorted({v for v in c if lo <= v <= hi})


# ------------------------------------------------------------------ structural helpers (no printer, no __eq__)
def _b():
    import xdsl.dialects.builtin as b
    return b


def children(a):
    """[(slot, child attribute)] of one node; slot is a parameter index or a dict key / tuple index."""
    from xdsl.ir import Data, ParametrizedAttribute
    b = _b()
    if isinstance(a, ParametrizedAttribute):
        return list(enumerate(a.parameters))
    if isinstance(a, b.ArrayAttr):
        return list(enumerate(a.data))
    if isinstance(a, b.DictionaryAttr):
        return list(a.data.items())
    if isinstance(a, Data) and isinstance(a.data, tuple):
        from xdsl.ir import Attribute
        return [(i, x) for i, x in enumerate(a.data) if isinstance(x, Attribute)]
    return []


def walk(a, parent=None, slot=None):
    yield a, parent, slot
    for s, c in children(a):
        yield from walk(c, a, s)


def depth_of(a) -> int:
    cs = [c for _, c in children(a)]
    b = _b()
    if isinstance(a, (b.IntegerType, b.IntegerAttr, b.FloatAttr)) or not cs:
        return 0
    return 1 + max(depth_of(c) for c in cs)


def rebuild(a, f=None):
    """Reconstruct ``a`` bottom-up through the generic constructors; ``f(new_node, old_node)`` may substitute."""
    from xdsl.ir import Attribute, Data, ParametrizedAttribute
    b = _b()
    if isinstance(a, ParametrizedAttribute):
        new = type(a).new([rebuild(p, f) for p in a.parameters])
    elif isinstance(a, b.ArrayAttr):
        new = b.ArrayAttr([rebuild(x, f) for x in a.data])
    elif isinstance(a, b.DictionaryAttr):
        new = b.DictionaryAttr({k: rebuild(v, f) for k, v in a.data.items()})
    elif isinstance(a, Data):
        d = a.data
        if isinstance(d, tuple) and any(isinstance(x, Attribute) for x in d):
            d = tuple(rebuild(x, f) if isinstance(x, Attribute) else x for x in d)
        new = type(a).new(d)
    else:  # pragma: no cover
        raise TypeError(type(a))
    return f(new, a) if f else new


def _float_elems(dtype, raw: bytes):
    """Decode the components of a dense float / complex-float buffer (uses the element type's own unpack)."""
    b = _b()
    et = dtype
    if isinstance(et, b.ComplexType):
        et = et.element_type
    if not isinstance(et, b.AnyFloat):
        return None
    return list(et.iter_unpack(raw))


def _prints_hex(x: float, et) -> bool:
    """Does Printer.print_float choose the 0x... spelling for this element? (NaN/inf, or f32/f64 integral values whose
    6-digit scientific form is lossy)."""
    b = _b()
    if math.isnan(x) or math.isinf(x):
        return True
    if isinstance(et, (b.Float32Type, b.Float64Type)) and x == int(x):
        s = f"{x:.5e}"
        try:
            back = et.unpack(et.pack([float(s)]), 1)[0]
        except Exception:  # noqa: BLE001
            return False
        if back != x:
            t = f"{x:.9g}" if isinstance(et, b.Float32Type) else f"{x:.17g}"
            return "." not in t
    return False


_STRLIT_SLOTS = {"FileLineColLoc": (0,), "NameLoc": (0,), "OpaqueAttr": (0, 1)}
_UNPRINTED_NONE = {"TensorType": (2,), "MemRefType": (2, 3), "UnrankedMemRefType": (1,), "OpaqueAttr": (2,),
                   "NameLoc": (1,), "FusedLoc": (1,), "StridedLayoutAttr": (1,)}


def features(a) -> set[str]:
    """FEATURES present in a value (positions matter: e.g. a NoneAttr encoding of a tensor is not printed)."""
    b = _b()
    out: set[str] = set()
    for n, parent, slot in walk(a):
        pn = type(parent).__name__ if parent is not None else None
        if isinstance(n, b.StringAttr) and not n.data.isascii():
            if pn in _STRLIT_SLOTS and slot in _STRLIT_SLOTS[pn]:
                out.add("nonascii_strlit")
            elif pn in ("SymbolRefAttr", "DenseResourceAttr") or (
                    pn == "ArrayAttr" and False) or isinstance(parent, b.UnregisteredAttr):
                pass
            elif _in_symref(a, n):
                pass
            else:
                out.add("nonascii_string")
        if isinstance(n, b.DictionaryAttr) and any(not k.isascii() for k in n.data):
            out.add("nonascii_strlit")
        if isinstance(n, b.BytesAttr) and n.data.isascii() and not isinstance(
                parent, (b.DenseIntOrFPElementsAttr, b.DenseArrayBase)):
            out.add("bytes_ascii")
        if isinstance(n, b.NoneAttr):
            if not (pn in _UNPRINTED_NONE and slot in _UNPRINTED_NONE[pn]) and not (
                    pn == "ArrayAttr" and _strided_strides(a, parent)):
                out.add("none_attr")
        if isinstance(n, b.FloatAttr) and isinstance(n.type, (b.Float80Type, b.Float128Type)):
            out.add("f80_f128_value")
        if isinstance(n, b.DenseIntOrFPElementsAttr):
            et = n.type.element_type
            vals = _float_elems(et, n.data.data)
            if vals:
                base = et.element_type if isinstance(et, b.ComplexType) else et
                if any(_prints_hex(v, base) for v in vals):
                    out.add("dense_complex_hex" if isinstance(et, b.ComplexType) else "dense_float_hex")
                size = et.compile_time_size
                raw = n.data.data
                chunks = [raw[i:i + size] for i in range(0, len(raw), size)]
                if len(set(chunks)) > 1:
                    per = 2 if isinstance(et, b.ComplexType) else 1
                    tup = [tuple(vals[i * per:(i + 1) * per]) for i in range(len(chunks))]
                    if all(all(p == q for p, q in zip(t, tup[0])) for t in tup):  # float ==: NaN never equal
                        out.add("dense_float_mixed_zero")
        if isinstance(n, b.DenseArrayBase) and isinstance(n.elt_type, b.AnyFloat):
            if any(_prints_hex(v, n.elt_type) for v in n.elt_type.iter_unpack(n.data.data)):
                out.add("array_float_hex")
        if isinstance(n, b.FusedLoc) and not isinstance(n.metadata, b.NoneAttr):
            out.add("fused_meta")
        if isinstance(n, b.FloatData) and not isinstance(parent, b.FloatAttr):
            r = f"{n.data}"
            if math.isnan(n.data) or math.isinf(n.data) or ("e" in r and "." not in r):
                out.add("floatdata_repr")
        if isinstance(n, b.UnregisteredAttr):
            out.add("unregistered")
        if isinstance(n, b.DenseResourceAttr):
            out.add("dense_resource")
        if isinstance(n, b.MemRefType) and isinstance(n.layout, b.NoneAttr) and isinstance(
                n.memory_space, b.MemRefLayoutAttr):
            out.add("memspace_layout")
    return out


def _in_symref(root, node) -> bool:
    b = _b()
    for n, _p, _s in walk(root):
        if isinstance(n, b.SymbolRefAttr):
            if node is n.root_reference or any(node is x for x in n.nested_references.data):
                return True
    return False


def _strided_strides(root, arr) -> bool:
    b = _b()
    for n, _p, _s in walk(root):
        if isinstance(n, b.StridedLayoutAttr) and n.strides is arr:
            return True
    return False


# ------------------------------------------------------------------ the generator
_ASCII_PRINTABLE = [chr(c) for c in range(0x20, 0x7F)]
_ESCAPES = ['"', "\\", "\n", "\t", "\x00", "\x01", "\x1f", "\x7f", "\r", "\x0b", "\x0c", "'", "\\\\", "\\n", "\\22", "%", "#"]
_UNI = ["é", "ß", "Ж", "中", "€", " ", "﻿", "￿", "\u0080", "߿", "ࠀ",
        "\U0001F600", "\U00010000", "\U0010FFFF", "́", "​", " "]
_IDENT_HEAD = "abcdefgXYZ_"
_IDENT_TAIL = "abcxyzABC019_$."
_ODD_KEYS = ["", " ", "a b", "1x", "true", "false", "loc", "unit", "dense", "x-y", 'q"q', "a\\b", "0", "-", "@s", "%v",
             "#h", "!t", "a,b", "a=b", "{", "affine_map", "i32", "none", "x.y$z", "_", "$", "."]
_WIDTHS = [1, 1, 2, 3, 7, 8, 8, 9, 15, 16, 16, 17, 31, 32, 32, 32, 33, 63, 64, 64, 64, 65, 127, 128]


class AttrGen:
    def __init__(self, rng, max_depth: int = 3, avoid=()):
        self.r = rng
        self.max_depth = max_depth
        self.avoid = frozenset(avoid)
        self.b = _b()
        self._uid = 0
        self.unconstructible = 0  # candidate payloads the public constructors reject (not values; counted)

    # ---- text
    def text(self, kind="any", maxlen=8) -> str:
        r = self.r
        if kind == "any":
            kind = r.choice(["ascii", "ascii", "escapes", "escapes", "unicode", "ident"])
        if kind == "unicode" and ("nonascii_string" in self.avoid or "nonascii_strlit" in self.avoid):
            kind = "escapes"
        n = r.choice([0, 1, 1, 2, 3, 5, maxlen])
        if kind == "ident":
            return r.choice(_IDENT_HEAD) + "".join(r.choice(_IDENT_TAIL) for _ in range(n))
        if kind == "ascii":
            return "".join(r.choice(_ASCII_PRINTABLE) for _ in range(n))
        if kind == "escapes":
            return "".join(r.choice(_ESCAPES) if r.random() < .5 else r.choice(_ASCII_PRINTABLE) for _ in range(n))
        out = []
        for _ in range(max(n, 1)):
            p = r.random()
            if p < .45:
                out.append(r.choice(_UNI))
            elif p < .6:
                c = r.randrange(0x80, 0x110000)
                if 0xD800 <= c <= 0xDFFF:
                    c = 0xE000
                out.append(chr(c))
            elif p < .8:
                out.append(r.choice(_ESCAPES))
            else:
                out.append(r.choice(_ASCII_PRINTABLE))
        return "".join(out)

    def strlit_text(self) -> str:
        """Text for positions read back with parse_str_literal."""
        if "nonascii_strlit" in self.avoid:
            return self.text(self.r.choice(["ascii", "escapes", "ident"]))
        return self.text()

    def key(self) -> str:
        r = self.r
        p = r.random()
        if p < .55:
            return self.text("ident")
        if p < .8:
            return r.choice(_ODD_KEYS)
        return self.strlit_text()

    # ---- scalars / types
    def signedness(self):
        S = self.b.Signedness
        return self.r.choice([S.SIGNLESS, S.SIGNLESS, S.SIGNED, S.UNSIGNED])

    def int_type(self, max_width=128, min_width=0):
        r = self.r
        w = r.choice(_WIDTHS) if r.random() < .85 else r.choice([0, 4, 5, 6, 10, 12, 24, 40, 48, 100, 1000, 16777215])
        w = max(min(w, max_width), min_width)
        return self.b.IntegerType(w, self.signedness())

    def float_type(self, packable=False):
        b = self.b
        common = [b.f32, b.f64, b.f16, b.bf16]
        rare = [b.tf32, b.f8E5M2, b.f8E4M3, b.f8E4M3FN, b.f8E5M2FNUZ, b.f8E4M3FNUZ, b.f8E4M3B11FNUZ, b.f8E3M4,
                b.f8E8M0FNU, b.f6E2M3FN, b.f6E3M2FN, b.f4E2M1FN]
        wide = [b.f80, b.f128]
        p = self.r.random()
        if p < .6:
            return self.r.choice(common)
        if p < .92 or packable:
            return self.r.choice(rare)
        return self.r.choice(wide)

    def scalar_type(self):
        p = self.r.random()
        if p < .45:
            return self.int_type()
        if p < .85:
            return self.float_type()
        if p < .93:
            return self.b.IndexType()
        return self.complex_type()

    def complex_type(self):
        return self.b.ComplexType(self.int_type(64, 1) if self.r.random() < .4 else self.float_type())

    def int_value(self, ty) -> int:
        b, r = self.b, self.r
        if isinstance(ty, b.IndexType):
            return r.choice([0, 1, -1, 2 ** 63 - 1, -2 ** 63, 2 ** 64, -2 ** 70, 42, r.randrange(-1000, 1000)])
        w = ty.width.data
        sg = ty.signedness.data.name.lower()
        if w == 0:
            return 0
        if r.random() < .6:
            return r.choice(boundary_ints(w, sg))
        lo, hi = ty.value_range()
        return r.randrange(lo, hi)

    def _raw_float(self, ty) -> float:
        r = self.r
        p = r.random()
        if p < .6:
            return r.choice(boundary_floats(ty.name))
        if p < .8:
            return f64_from_bits(r.getrandbits(64))
        if p < .9:
            return r.choice([-1, 1]) * r.random() * 10.0 ** r.randint(-12, 12)
        return float(r.randint(-2 ** 33, 2 ** 33))

    def float_value(self, ty) -> float:
        """A python float the type's constructor accepts.  (FloatAttr / pack raise OverflowError for finite doubles
        beyond the range of f16/f32/bf16 and ValueError for negative f8E8M0FNU values: such inputs are no values.)"""
        b = self.b
        for _ in range(50):
            v = self._raw_float(ty)
            if isinstance(ty, (b.Float80Type, b.Float128Type)):
                return v
            try:
                ty.pack([v])
            except (OverflowError, ValueError):
                self.unconstructible += 1
                continue
            return v
        return 1.5

    def integer_attr(self):
        ty = self.b.IndexType() if self.r.random() < .12 else self.int_type()
        return self.b.IntegerAttr(self.int_value(ty), ty)

    def float_attr(self):
        b = self.b
        ty = self.float_type()
        if "f80_f128_value" in self.avoid and isinstance(ty, (b.Float80Type, b.Float128Type)):
            ty = b.f64
        return b.FloatAttr(self.float_value(ty), ty)

    def string_attr(self):
        return self.b.StringAttr(self.text(maxlen=12))

    def bytes_attr(self):
        r = self.r
        p = r.random()
        if p < .25 and "bytes_ascii" not in self.avoid:
            data = self.text("ascii").encode()
        elif p < .5:
            data = (self.text("unicode") or "é").encode()
            if data.isascii():
                data += b"\xc3\xa9"
        else:
            data = bytes(r.getrandbits(8) for _ in range(r.choice([1, 2, 3, 8, 17])))
            if data.isascii():
                data += b"\xff"
        return self.b.BytesAttr(data)

    def symbol_ref(self):
        r = self.r

        def name():
            p = r.random()
            return self.text("ident") if p < .6 else (r.choice(_ODD_KEYS) if p < .8 else self.text())
        return self.b.SymbolRefAttr(name(), [name() for _ in range(r.choice([0, 0, 1, 2]))])

    def shape(self, dynamic=True, maxrank=3):
        r = self.r
        rank = r.choice([0, 1, 1, 2, 2, 3][: maxrank + 3])
        dims = []
        for _ in range(rank):
            p = r.random()
            if dynamic and p < .2:
                dims.append(self.b.DYNAMIC_INDEX)
            elif p < .3:
                dims.append(0)
            else:
                dims.append(r.choice([1, 1, 2, 3, 4, 7, 16, 1024, 2 ** 40]))
        return dims

    def elem_type(self, depth):
        if depth > 0 and self.r.random() < .12:
            return self.vector_type(0)
        return self.scalar_type()

    def vector_type(self, depth):
        b, r = self.b, self.r
        dims = [d if d else 1 for d in self.shape(dynamic=False)]
        dims = [min(d, 1024) for d in dims]
        et = self.int_type() if r.random() < .4 else (self.float_type() if r.random() < .8 else b.IndexType())
        if dims and r.random() < .3:
            sc = b.ArrayAttr([b.BoolAttr.from_bool(r.random() < .5) for _ in dims])
            return b.VectorType(et, dims, sc)
        return b.VectorType(et, dims)

    def strided_layout(self, rank=None):
        b, r = self.b, self.r
        rank = r.choice([0, 1, 2, 3]) if rank is None else rank
        strides = [None if r.random() < .2 else r.choice([0, 1, 2, -1, 16, 2 ** 40]) for _ in range(rank)]
        off = r.choice([0, 0, 1, -3, None, 2 ** 35])
        return b.StridedLayoutAttr(strides, off)

    def affine_expr(self, nd, ns, depth):
        from xdsl.ir.affine import AffineExpr
        r = self.r
        if depth <= 0 or r.random() < .35:
            p = r.random()
            if p < .45 and nd:
                return AffineExpr.dimension(r.randrange(nd))
            if p < .7 and ns:
                return AffineExpr.symbol(r.randrange(ns))
            return AffineExpr.constant(r.choice([0, 1, -1, 2, 3, 5, -7, 16, 2 ** 40]))
        lhs = self.affine_expr(nd, ns, depth - 1)
        k = r.choice(["+", "+", "-", "*", "mod", "floordiv", "ceildiv", "neg"])
        if k == "neg":
            return -lhs
        c = r.choice([2, 3, 4, 5, 8, -2, 1])
        rhs = self.affine_expr(nd, ns, depth - 1) if k in "+-" else c
        if k == "+":
            return lhs + rhs
        if k == "-":
            return lhs - rhs
        if k == "*":
            return lhs * c
        c = abs(c) + 1
        return lhs % c if k == "mod" else (lhs // c if k == "floordiv" else lhs.ceil_div(c))

    def affine_map_attr(self):
        from xdsl.ir.affine import AffineMap
        r = self.r
        nd, ns = r.choice([0, 1, 2, 3]), r.choice([0, 0, 1, 2])
        res = tuple(self.affine_expr(nd, ns, r.choice([0, 1, 2, 3])) for _ in range(r.choice([0, 1, 1, 2, 3])))
        return self.b.AffineMapAttr(AffineMap(nd, ns, res))

    def affine_set_attr(self):
        from xdsl.ir.affine import AffineConstraintExpr, AffineConstraintKind, AffineSet
        r = self.r
        nd, ns = r.choice([1, 2, 3]), r.choice([0, 0, 1])
        cs = tuple(AffineConstraintExpr(r.choice(list(AffineConstraintKind)), self.affine_expr(nd, ns, r.choice([0, 1, 2])),
                                        self.affine_expr(nd, ns, r.choice([0, 1])))
                   for _ in range(r.choice([0, 1, 2, 3])))
        return self.b.AffineSetAttr(AffineSet(nd, ns, cs))

    def memspace(self, depth):
        b = self.b
        for _ in range(20):
            a = self.attr(min(depth, 1))
            if isinstance(a, b.NoneAttr):
                continue
            if isinstance(a, b.MemRefLayoutAttr) and "memspace_layout" in self.avoid:
                continue
            return a
        return b.IntegerAttr(1, b.i32)

    def type(self, depth=None):
        b, r = self.b, self.r
        depth = self.max_depth if depth is None else depth
        if depth <= 0:
            p = r.random()
            return self.scalar_type() if p < .9 else (b.NoneType() if p < .95 else b.TupleType(()))
        k = r.choice(["scalar", "scalar", "tensor", "tensor", "memref", "memref", "vector", "function", "tuple",
                      "complex", "utensor", "umemref", "none"])
        if k == "scalar":
            return self.scalar_type()
        if k == "none":
            return b.NoneType()
        if k == "complex":
            return self.complex_type()
        if k == "vector":
            return self.vector_type(depth - 1)
        if k == "tuple":
            return b.TupleType(tuple(self.type(depth - 1) for _ in range(r.choice([0, 1, 2, 3]))))
        if k == "function":
            return b.FunctionType.from_lists([self.type(depth - 1) for _ in range(r.choice([0, 1, 2]))],
                                             [self.type(depth - 1) for _ in range(r.choice([0, 1, 1, 2]))])
        if k == "utensor":
            return b.UnrankedTensorType(self.elem_type(depth - 1))
        if k == "umemref":
            et = self.elem_type(depth - 1)
            return b.UnrankedMemRefType.from_type(et) if r.random() < .5 else b.UnrankedMemRefType.from_type(
                et, self.memspace(depth - 1))
        if k == "tensor":
            et = self.elem_type(depth - 1)
            if r.random() < .25:
                enc = self.attr(depth - 1)
                if not isinstance(enc, b.NoneAttr):
                    return b.TensorType(et, self.shape(), enc)
            return b.TensorType(et, self.shape())
        # memref
        et = self.elem_type(depth - 1)
        shp = self.shape()
        p = r.random()
        layout = b.NoneAttr()
        if p < .25:
            layout = self.strided_layout(len(shp))
        elif p < .4:
            layout = self.affine_map_attr()
        ms = self.memspace(depth - 1) if r.random() < .35 else b.NoneAttr()
        if isinstance(layout, b.NoneAttr) and isinstance(ms, b.MemRefLayoutAttr) and "memspace_layout" in self.avoid:
            ms = b.NoneAttr()
        return b.MemRefType(et, shp, layout, ms)

    # ---- dense
    def _dense_elem_type(self):
        b, r = self.b, self.r
        p = r.random()
        if p < .4:
            w = r.choice([1, 1, 3, 7, 8, 8, 9, 16, 31, 32, 32, 33, 63, 64, 64])
            return b.IntegerType(w, self.signedness())
        if p < .48:
            return b.IndexType()
        if p < .88:
            return self.float_type(packable=True)
        inner = b.IntegerType(r.choice([8, 16, 32, 64]), self.signedness()) if r.random() < .4 else r.choice(
            [b.f32, b.f64, b.f16, b.bf16])
        return b.ComplexType(inner)

    def _dense_float(self, et, n, *, allow_hex, allow_mixed_zero):
        """n float values for a dense payload; honours the avoid set."""
        b, r = self.b, self.r
        vals = []
        mode = r.random()
        for _ in range(n):
            for _try in range(50):
                v = self.float_value(et)
                vv = et.unpack(et.pack([v]), 1)[0]
                if not allow_hex and _prints_hex(vv, et):
                    continue
                break
            else:
                v = 1.5
            vals.append(v)
        if n >= 2 and mode < .12:  # all-equal or zero-mixed payloads (splat printing path)
            z = r.choice([0.0, -0.0, 1.0, vals[0]])
            if not allow_hex and _prints_hex(et.unpack(et.pack([z]), 1)[0], et):
                z = 1.0
            vals = [z] * n
            if allow_mixed_zero and z == 0.0 and r.random() < .6:
                vals = [r.choice([0.0, -0.0]) for _ in range(n)]
        if not allow_mixed_zero and n >= 2:
            packed = [et.pack([v]) for v in vals]
            if len(set(packed)) > 1 and all(et.unpack(p, 1)[0] == et.unpack(packed[0], 1)[0] for p in packed):
                vals[-1] = 1.25 if vals[0] != 1.25 else 2.5
        return vals

    def dense_elements(self):
        b, r = self.b, self.r
        et = self._dense_elem_type()
        p = r.random()
        if p < .08:
            shp = []
        elif p < .16:
            shp = r.choice([[0], [2, 0], [0, 3], [1, 0, 2]])
        elif p < .24:
            shp = r.choice([[101], [128], [3, 40], [2, 3, 20], [200]])  # > 100 elements: hex blob path
        else:
            shp = [r.choice([1, 2, 3, 4, 5]) for _ in range(r.choice([1, 1, 2, 2, 3]))]
        n = math.prod(shp)
        k = r.random()
        cont = b.TensorType(et, shp) if k < .7 else (b.VectorType(et, shp) if k < .88 and all(shp) else b.MemRefType(et, shp))
        if n and r.random() < .12 and "dense_float_hex" not in self.avoid and "dense_float_mixed_zero" not in self.avoid:
            # raw buffer through the public constructor: every bit pattern of a float / full-byte-width integer is a value
            base = et.element_type if isinstance(et, b.ComplexType) else et
            if isinstance(base, b.AnyFloat) or (isinstance(base, b.IntegerType) and base.width.data in (8, 16, 32, 64)) \
                    or isinstance(base, b.IndexType):
                if not (isinstance(et, b.ComplexType) and "dense_complex_hex" in self.avoid):
                    return b.DenseIntOrFPElementsAttr(cont, b.BytesAttr(self._raw_buffer(base, n * (2 if isinstance(et, b.ComplexType) else 1))))
        splat = n > 1 and r.random() < .15
        cnt = 1 if splat else n
        hexok = "dense_float_hex" not in self.avoid
        zok = "dense_float_mixed_zero" not in self.avoid
        if isinstance(et, b.ComplexType):
            it = et.element_type
            if isinstance(it, b.IntegerType):
                # from_list does not normalise complex integer components: keep them inside the struct format's range
                w = it.width.data
                lo, hi = (0, 2 ** w - 1) if it.signedness.data == b.Signedness.UNSIGNED else (-2 ** (w - 1), 2 ** (w - 1) - 1)
                cv = [lo, hi, 0, 1, max(lo, -1), lo + 1, hi - 1]
                data = [(r.choice(cv), r.choice(cv)) for _ in range(cnt)]
            else:
                fl = self._dense_float(it, 2 * cnt, allow_hex="dense_complex_hex" not in self.avoid, allow_mixed_zero=zok)
                data = [(fl[2 * i], fl[2 * i + 1]) for i in range(cnt)]
                if not zok and cnt >= 2:
                    data[-1] = (data[-1][0], 7.0 if data[0][1] != 7.0 else 9.0)
        elif isinstance(et, (b.IntegerType, b.IndexType)):
            if n > 1 and not splat and r.random() < .1:
                data = [self.int_value(et)] * cnt
            else:
                data = [self.int_value(et) for _ in range(cnt)]
            if isinstance(et, b.IndexType):
                data = [max(-2 ** 63, min(2 ** 63 - 1, v)) for v in data]
        else:
            data = self._dense_float(et, cnt, allow_hex=hexok, allow_mixed_zero=zok)
        return b.DenseIntOrFPElementsAttr.from_list(cont, data)

    def _raw_buffer(self, base, count) -> bytes:
        """count elements of random bits, masked to the bits the type defines (reduced-precision floats occupy the low
        bits of their byte(s))."""
        r = self.r
        size = base.compile_time_size
        bw = getattr(base, "bitwidth", 8 * size) if isinstance(base, self.b.AnyFloat) else 8 * size
        out = bytearray()
        for _ in range(count):
            p = r.random()
            bits = r.getrandbits(bw) if p < .7 else r.choice([0, 1 << (bw - 1), (1 << bw) - 1, (1 << (bw - 1)) - 1, 1])
            out += bits.to_bytes(size, "little")
        return bytes(out)

    def dense_array(self):
        b, r = self.b, self.r
        n = r.choice([0, 1, 2, 3, 5, 9])
        if n and r.random() < .1 and "array_float_hex" not in self.avoid:
            et = self.float_type(packable=True) if r.random() < .7 else b.IntegerType(r.choice([8, 16, 32, 64]), self.signedness())
            if et.size == et.compile_time_size:
                return b.DenseArrayBase(et, b.BytesAttr(self._raw_buffer(et, n)))
        if r.random() < .5:
            # widths whose byte size equals the struct format size (DenseArrayBase.verify rejects e.g. i24, i33: not values)
            et = b.IntegerType(r.choice([1, 3, 7, 8, 8, 9, 16, 16, 31, 32, 32, 57, 63, 64, 64]), self.signedness())
            return b.DenseArrayBase.from_list(et, [self.int_value(et) for _ in range(n)])
        et = self.float_type(packable=True)
        return b.DenseArrayBase.from_list(et, self._dense_float(et, n, allow_hex="array_float_hex" not in self.avoid,
                                                                allow_mixed_zero=True))

    # ---- locations and friends
    def location(self, depth):
        b, r = self.b, self.r
        k = r.choice(["unknown", "file", "file", "name", "callsite", "fused"]) if depth > 0 else r.choice(["unknown", "file", "name0"])
        if k == "unknown":
            return b.UnknownLoc()
        if k == "file":
            return b.FileLineColLoc(b.StringAttr(self.strlit_text()), b.IntAttr(r.choice([0, 1, 7, 2 ** 31, 2 ** 64])),
                                    b.IntAttr(r.choice([0, 1, 80, 2 ** 40])))
        if k == "name0":
            return b.NameLoc(b.StringAttr(self.strlit_text()), b.NoneAttr())
        if k == "name":
            return b.NameLoc(b.StringAttr(self.strlit_text()), self.location(depth - 1) if r.random() < .6 else b.NoneAttr())
        if k == "callsite":
            return b.CallSiteLoc(self.location(depth - 1), self.location(depth - 1))
        locs = [self.location(depth - 1) for _ in range(r.choice([0, 1, 2, 3]))]
        meta = b.NoneAttr()
        if r.random() < .25 and "fused_meta" not in self.avoid:
            # metadata never contains a location: the printer drops the `loc(` wrapper of every location nested in a
            # location, which the attribute grammar cannot read back (out of scope while fused<...> is unparsable anyway)
            for _ in range(10):
                meta = self.attr(0)
                if not any(isinstance(n, (b.UnknownLoc, b.FileLineColLoc, b.NameLoc, b.CallSiteLoc, b.FusedLoc, b.NoneAttr))
                           for n, _p, _s in walk(meta)):
                    break
            else:
                meta = b.UnitAttr()
        return b.FusedLoc(b.ArrayAttr(locs), meta)

    def opaque_attr(self):
        b, r = self.b, self.r
        ty = self.type(1) if r.random() < .5 else b.NoneAttr()
        return b.OpaqueAttr.from_strings(self.strlit_text(), self.strlit_text(), ty)

    def unregistered(self):
        b, r = self.b, self.r
        is_type = r.random() < .4
        name = r.choice(["xvd", "foo", "my_dialect"]) + "." + self.text("ident").replace(".", "_").replace("$", "_")
        body = r.choice(["", "1, 2", "i32", '"s"', "[1, (2)], {a = <b>}", "x -> y", "4 x f32", '"\\22 >"', "a<b<c>>"])
        cls = b.UnregisteredAttr.with_name_and_type(name, is_type)
        return cls(name, is_type, False, body)

    def dense_resource(self):
        b = self.b
        self._uid += 1
        h = f"{self.text('ident').replace('.', '_').replace('$', '_')}_{self.r.getrandbits(40):x}_{self._uid}"
        return b.DenseResourceAttr.from_params(h, b.TensorType(self.scalar_type(), self.shape(dynamic=False)))

    def array_attr(self, depth):
        return self.b.ArrayAttr([self.attr(depth - 1) for _ in range(self.r.choice([0, 1, 2, 2, 3, 5]))])

    def dict_attr(self, depth):
        d = {}
        for _ in range(self.r.choice([0, 1, 2, 2, 3, 4])):
            d[self.key()] = self.attr(depth - 1)
        return self.b.DictionaryAttr(d)

    _LEAF = ["int", "int", "int", "float", "float", "float", "string", "string", "bytes", "unit", "symref", "type", "type",
             "dense", "dense", "densearray", "loc", "affine_map", "affine_set", "opaque", "strided", "none", "intdata",
             "floatdata", "signedness", "unregistered", "dense_resource"]

    def attr(self, depth=None):
        b, r = self.b, self.r
        depth = self.max_depth if depth is None else depth
        kinds = list(self._LEAF)
        if depth > 0:
            kinds += ["array"] * 5 + ["dict"] * 5 + ["type"] * 3 + ["loc"] * 2
        for _ in range(100):
            k = r.choice(kinds)
            if k == "none" and "none_attr" in self.avoid:
                continue
            if k == "unregistered" and "unregistered" in self.avoid:
                continue
            if k == "dense_resource" and "dense_resource" in self.avoid:
                continue
            break
        if k == "int":
            return self.integer_attr()
        if k == "float":
            return self.float_attr()
        if k == "string":
            return self.string_attr()
        if k == "bytes":
            return self.bytes_attr()
        if k == "unit":
            return b.UnitAttr()
        if k == "symref":
            return self.symbol_ref()
        if k == "type":
            return self.type(depth)
        if k == "dense":
            return self.dense_elements()
        if k == "densearray":
            return self.dense_array()
        if k == "loc":
            return self.location(depth)
        if k == "affine_map":
            return self.affine_map_attr()
        if k == "affine_set":
            return self.affine_set_attr()
        if k == "opaque":
            return self.opaque_attr()
        if k == "strided":
            return self.strided_layout()
        if k == "none":
            return b.NoneAttr()
        if k == "intdata":
            return b.IntAttr(r.choice([0, 1, -1, 2 ** 64, -2 ** 100, 42]))
        if k == "floatdata":
            v = r.choice([0.0, -0.0, 1.5, 0.1, -2.25, 1e300, 1e-7, math.nan, math.inf, 123456.789, 5e-324])
            if "floatdata_repr" in self.avoid and (math.isnan(v) or math.isinf(v) or ("e" in f"{v}" and "." not in f"{v}")):
                v = 1.5
            return b.FloatData(v)
        if k == "signedness":
            return b.SignednessAttr(self.signedness())
        if k == "unregistered":
            return self.unregistered()
        if k == "dense_resource":
            return self.dense_resource()
        if k == "array":
            return self.array_attr(depth)
        return self.dict_attr(depth)



def has_unordered_container(a) -> bool:
    """Does the value contain an order-insensitive container with >= 2 entries (DictionaryAttr, or a Data attribute whose
    payload is a dict / set / frozenset)?"""
    from xdsl.ir import Data
    for n, _p, _s in walk(a):
        if isinstance(n, Data) and isinstance(n.data, (dict, set, frozenset)) or (isinstance(n, Data) and hasattr(n.data, "items")):
            if len(n.data) >= 2:
                return True
    return False


def rebuild_reordered(a, rng=None):
    """Rebuild ``a`` bottom-up with the entries of every order-insensitive container inserted in a DIFFERENT order
    (reversed, or shuffled when an rng is given): the result denotes the same value built along another construction
    path, so it must be ==, hash-equal and interchangeable as set member / dict key."""
    from xdsl.ir import Attribute, Data
    b = _b()

    def order(items):
        items = list(items)
        if rng is None or len(items) < 3:
            return list(reversed(items))
        first = list(items)
        for _ in range(5):
            rng.shuffle(items)
            if items != first:
                break
        return items

    def go(x):
        if isinstance(x, b.DictionaryAttr):
            return b.DictionaryAttr({k: go(v) for k, v in order(x.data.items())})
        if isinstance(x, Data) and isinstance(x.data, (set, frozenset)):
            return type(x).new(type(x.data)(order(go(e) if isinstance(e, Attribute) else e for e in x.data)))
        if isinstance(x, Data) and isinstance(x.data, dict):
            return type(x).new({k: (go(v) if isinstance(v, Attribute) else v) for k, v in order(x.data.items())})
        from xdsl.ir import ParametrizedAttribute
        if isinstance(x, ParametrizedAttribute):
            return type(x).new([go(p) for p in x.parameters])
        if isinstance(x, b.ArrayAttr):
            return b.ArrayAttr([go(e) for e in x.data])
        if isinstance(x, Data) and isinstance(x.data, tuple) and any(isinstance(e, Attribute) for e in x.data):
            return type(x).new(tuple(go(e) if isinstance(e, Attribute) else e for e in x.data))
        return x
    return go(a)


# ------------------------------------------------------------------ near duplicates (C08)
def near_duplicates(a, rng, k=4):
    """Attributes that differ from ``a`` in exactly one leaf.  Each is obtained by rebuilding ``a`` with one node
    replaced: float sign of zero / NaN payload / next representable value, integer +-1 / other width / other
    signedness, one character of a string, bool<->int payloads, one byte of a dense buffer..."""
    b = _b()
    nodes = [n for n, _p, _s in walk(a)]
    out = []
    for _ in range(k * 4):
        if len(out) >= k:
            break
        target = rng.choice(nodes)
        try:
            repl = _mutate_leaf(target, rng, b)
        except (ValueError, OverflowError, NotImplementedError):  # constructor rejects the mutated payload: not a value
            repl = None
        if repl is None:
            continue
        done = [False]

        def f(new, old, target=target, repl=repl, done=done):
            if old is target and not done[0]:
                done[0] = True
                return repl
            return new
        try:
            out.append(rebuild(a, f))
        except Exception:  # noqa: BLE001  (a verifier rejected the mutated value: not a value)
            continue
    return out


def _mutate_leaf(n, rng, b):
    if isinstance(n, b.FloatData):
        x = n.data
        if x == 0.0:
            return b.FloatData(-x)
        if math.isnan(x):
            return b.FloatData(f64_from_bits(f64_bits(x) ^ rng.choice([1, 1 << 63, 1 << 50])))
        return b.FloatData(f64_from_bits(f64_bits(x) ^ rng.choice([1, 1 << 63])))
    if isinstance(n, b.FloatAttr) and not isinstance(n.type, (b.Float80Type, b.Float128Type)):
        x = n.value.data
        if x == 0.0:
            return b.FloatAttr(-x, n.type)
        if math.isnan(x):
            return b.FloatAttr(math.copysign(x, -math.copysign(1.0, x)), n.type)
        return b.FloatAttr(-x, n.type) if rng.random() < .5 else b.FloatAttr(x, rng.choice([b.f32, b.f64, b.f16, b.bf16]))
    if isinstance(n, b.IntAttr):
        d = n.data
        if isinstance(d, bool):
            return b.IntAttr(int(d))
        return b.IntAttr(d + rng.choice([1, -1])) if rng.random() < .7 else (b.IntAttr(bool(d)) if d in (0, 1) else None)
    if isinstance(n, b.IntegerAttr):
        p = rng.random()
        if p < .4 and isinstance(n.type, b.IntegerType):
            w = n.type.width.data
            for nt in (b.IntegerType(w + 1, n.type.signedness.data), b.IntegerType(w, rng.choice(list(b.Signedness)))):
                try:
                    return b.IntegerAttr(n.value.data, nt)
                except Exception:  # noqa: BLE001
                    continue
            return None
        try:
            return b.IntegerAttr(n.value.data + rng.choice([1, -1]), n.type)
        except Exception:  # noqa: BLE001
            return None
    if isinstance(n, b.StringAttr):
        s = n.data
        if not s:
            return b.StringAttr(rng.choice(["a", " ", "\x00"]))
        i = rng.randrange(len(s))
        c = s[i]
        alt = c.swapcase() if c.swapcase() != c else ("a" if c != "a" else "b")
        return b.StringAttr(s[:i] + alt + s[i + 1:]) if rng.random() < .7 else b.StringAttr(s + rng.choice(["\x00", " ", "́"]))
    if isinstance(n, b.BytesAttr):
        d = n.data
        if not d:
            return b.BytesAttr(b"\x00")
        i = rng.randrange(len(d))
        return b.BytesAttr(d[:i] + bytes([d[i] ^ rng.choice([1, 0x80])]) + d[i + 1:])
    if isinstance(n, b.SignednessAttr):
        return b.SignednessAttr(rng.choice([s for s in b.Signedness if s != n.data]))
    if isinstance(n, b.IntegerType):
        return b.IntegerType(n.width.data + 1, n.signedness.data)
    if isinstance(n, b.Float32Type):
        return b.f64
    if isinstance(n, b.Float64Type):
        return b.f32
    if isinstance(n, b.UnitAttr):
        return b.NoneAttr()
    if isinstance(n, b.NoneAttr):
        return b.NoneType()
    if isinstance(n, b.NoneType):
        return b.NoneAttr()
    if isinstance(n, b.ArrayAttr) and n.data:
        return b.ArrayAttr(n.data[:-1]) if rng.random() < .5 else b.ArrayAttr(tuple(reversed(n.data)))
    if isinstance(n, b.DictionaryAttr) and n.data:
        d = dict(n.data)
        k = rng.choice(sorted(d))
        v = d.pop(k)
        if rng.random() < .5:
            d[k + "_"] = v
        return b.DictionaryAttr(d)
    return None
