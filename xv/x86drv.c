/* C21 native driver: loads one shared object, performs the calls listed in a spec file through the
 * assembly trampoline xv_call and prints what the trampoline observed.  Runs as a CHILD process of
 * xv/x86run.py (and under valgrind in the thorough tier), so a crash of generated code kills only
 * this process; the last "S <name>" line without a matching "D <name>" names the culprit.
 *
 * spec:   F <symbol> <nargs>     start of a function
 *         C <hex> <hex> ...      one call (max(nargs,6) words; unused register slots carry poison)
 *         E                      end of the function
 * output: S <symbol> / R <16 hex words> / D <symbol>, "X <symbol>" when the symbol is missing.
 */
#define _GNU_SOURCE
#include <dlfcn.h>
#include <inttypes.h>
#include <stdint.h>
#include <stdio.h>
#include <stdlib.h>
#include <string.h>

extern void xv_call(void *fn, const uint64_t *args, int64_t nargs, uint64_t *out);

int main(int argc, char **argv) {
    if (argc < 3) { fprintf(stderr, "usage: x86drv lib.so spec\n"); return 2; }
    void *h = dlopen(argv[1], RTLD_NOW | RTLD_LOCAL);
    if (!h) { fprintf(stderr, "dlopen: %s\n", dlerror()); return 3; }
    FILE *f = fopen(argv[2], "r");
    if (!f) { perror("spec"); return 4; }
    static char line[1 << 16];
    char name[256] = "";
    void *fn = NULL;
    long nargs = 0;
    setvbuf(stdout, NULL, _IOLBF, 0);
    while (fgets(line, sizeof line, f)) {
        if (line[0] == 'F') {
            if (sscanf(line + 1, "%255s %ld", name, &nargs) != 2) { fprintf(stderr, "bad F line\n"); return 5; }
            fn = dlsym(h, name);
            if (!fn) { printf("X %s\n", name); fflush(stdout); continue; }
            printf("S %s\n", name); fflush(stdout);
        } else if (line[0] == 'C') {
            if (!fn) continue;
            uint64_t args[64]; uint64_t out[16];
            int n = 0; char *p = line + 1, *e;
            for (;;) {
                uint64_t v = strtoull(p, &e, 16);
                if (e == p) break;
                if (n < 64) args[n++] = v;
                p = e;
            }
            while (n < 6) args[n++] = 0xDEADDEADDEADDEADull;
            memset(out, 0xEE, sizeof out);
            xv_call(fn, args, nargs, out);
            printf("R");
            for (int i = 0; i < 13; i++) printf(" %" PRIx64, out[i]);
            printf("\n"); fflush(stdout);
        } else if (line[0] == 'E') {
            if (fn) { printf("D %s\n", name); fflush(stdout); }
            fn = NULL;
        }
    }
    printf("END\n"); fflush(stdout);
    return 0;
}
