"""refsem - independent reference semantics for func/arith/cf/scf/memref/affine/symref programs.

Shares nothing with xdsl.interpreters, the folders or the canonicalization patterns: ops are dispatched
on their *name*, operands/results are read positionally (`op.operands[i]`, `op.results[i]`), attributes
are read from `op.properties` / `op.attributes` dictionaries.

Value representation
* integers / index: non-negative python ints (the bit pattern), width from the type (`index` = 64 bits)
* floats: python floats already rounded to the type's precision (f16/f32/f64); NaNs compare equal to
  NaNs when observed (`any NaN == any NaN`), everything else bit-exact (so +0.0 != -0.0)
* POISON: result of an op whose MLIR result is poison (shift >= width, out-of-range fptosi, ...);
  poison propagates through pure ops and raises `Undefined` when *observed* (returned, stored to an
  observable memory, passed to an effect, branched on, used as divisor / loop bound / index)
* memrefs: (handle, shape) with `self.mem[handle]` a flat list

Exceptions
* `Undefined`  - the program has undefined behaviour / observes poison on this input (source side: the
                 input is excluded from comparison; target side only: the transformation introduced UB)
* `Unsupported`- op outside the modelled vocabulary (case is skipped and counted)
* `StepLimit`  - more than `step_limit` op executions

API
* `run(module, fname, args, step_limit=200000) -> (results, effect_log)`; results are *observed*
  values (ints, ("f", bytes) for floats, ("f","nan")); memref arguments are given as
  `("memref", shape, [values...])` and their final contents are appended to the results as
  ("mem", tuple(observed contents)) in argument order.
* `observe(v)`; `Machine` for finer control (e.g. `Machine.ext` to change the model of external calls).
* effect log entries: ("extcall", name, args), ("store", handle, linear index, value) for stores to
  argument memrefs, (op name, operands) for `test.op`/`test.op_with_memwrite`/`printf.print_format`.
"""
from __future__ import annotations

import hashlib
import math
import struct

INDEX_W = 64


class Undefined(Exception):
    pass


class Unsupported(Exception):
    pass


class StepLimit(Exception):
    pass


POISON = ("poison",)


def tname(t) -> str:
    return type(t).__name__


def width(t) -> int:
    n = tname(t)
    if n == "IntegerType":
        return t.width.data
    if n == "IndexType":
        return INDEX_W
    raise Unsupported(f"width of {t}")


def is_int(t) -> bool:
    return tname(t) in ("IntegerType", "IndexType")


def is_float(t) -> bool:
    return tname(t) in ("Float16Type", "Float32Type", "Float64Type", "BFloat16Type")


def U(x, w):
    return x & ((1 << w) - 1)


def S(x, w):
    x &= (1 << w) - 1
    return x - (1 << w) if w and x >> (w - 1) else x


def fround(x, t):
    n = tname(t)
    if n == "Float64Type":
        return x
    fmt = {"Float32Type": "<f", "Float16Type": "<e"}.get(n)
    if fmt is None:
        raise Unsupported(f"float type {t}")
    if math.isnan(x) or math.isinf(x):
        return x
    try:
        return struct.unpack(fmt, struct.pack(fmt, x))[0]
    except OverflowError:
        return math.copysign(math.inf, x)


def fdiv(a, b):
    if math.isnan(a) or math.isnan(b):
        return math.nan
    if b == 0:
        if a == 0:
            return math.nan
        return math.copysign(math.inf, a) * math.copysign(1.0, b)
    if math.isinf(a) and math.isinf(b):
        return math.nan
    try:
        return a / b
    except OverflowError:
        return math.copysign(math.inf, a) * math.copysign(1.0, b)


def fmul(a, b):
    if math.isnan(a) or math.isnan(b):
        return math.nan
    if (math.isinf(a) and b == 0) or (math.isinf(b) and a == 0):
        return math.nan
    try:
        return a * b
    except OverflowError:
        return math.copysign(math.inf, a) * math.copysign(1.0, b)


def fadd(a, b):
    if math.isnan(a) or math.isnan(b):
        return math.nan
    if math.isinf(a) and math.isinf(b) and a != b:
        return math.nan
    return a + b  # python float add never raises; overflow gives inf


def _fmaxmin(a, b, is_max, propagate_nan):
    an, bn = math.isnan(a), math.isnan(b)
    if an or bn:
        if propagate_nan:
            return math.nan
        if an and bn:
            return math.nan
        return b if an else a
    if a == b:  # handles +-0: max(+0,-0)=+0, min(+0,-0)=-0
        pa = math.copysign(1.0, a) > 0
        if is_max:
            return a if pa else b
        return b if pa else a
    return max(a, b) if is_max else min(a, b)


INT_BIN = {
    "arith.addi": lambda a, b, w: U(a + b, w),
    "arith.subi": lambda a, b, w: U(a - b, w),
    "arith.muli": lambda a, b, w: U(a * b, w),
    "arith.andi": lambda a, b, w: a & b,
    "arith.ori": lambda a, b, w: a | b,
    "arith.xori": lambda a, b, w: a ^ b,
    "arith.shli": lambda a, b, w: POISON if b >= w else U(a << b, w),
    "arith.shrui": lambda a, b, w: POISON if b >= w else a >> b,
    "arith.shrsi": lambda a, b, w: POISON if b >= w else U(S(a, w) >> b, w),
    "arith.minsi": lambda a, b, w: U(min(S(a, w), S(b, w)), w),
    "arith.maxsi": lambda a, b, w: U(max(S(a, w), S(b, w)), w),
    "arith.minui": lambda a, b, w: min(a, b),
    "arith.maxui": lambda a, b, w: max(a, b),
}
INT_DIV = ("arith.divui", "arith.divsi", "arith.remui", "arith.remsi", "arith.floordivsi", "arith.ceildivsi",
           "arith.ceildivui")
FLT_BIN = ("arith.addf", "arith.subf", "arith.mulf", "arith.divf", "arith.maximumf", "arith.minimumf",
           "arith.maxnumf", "arith.minnumf")


def _tdiv(a, b):
    q = abs(a) // abs(b)
    return q if (a < 0) == (b < 0) else -q


def int_div(name, a, b, w):
    """a, b bit patterns. Raises Undefined where MLIR/LLVM say UB."""
    sa, sb = S(a, w), S(b, w)
    if name in ("arith.divui", "arith.remui", "arith.ceildivui"):
        if b == 0:
            raise Undefined("division by zero")
        if name == "arith.divui":
            return a // b
        if name == "arith.remui":
            return a % b
        return U(-((-a) // b), w)
    if sb == 0:
        raise Undefined("division by zero")
    if sa == -(1 << (w - 1)) and sb == -1:
        raise Undefined("signed division overflow")
    if name == "arith.divsi":
        return U(_tdiv(sa, sb), w)
    if name == "arith.remsi":
        return U(sa - sb * _tdiv(sa, sb), w)
    if name == "arith.floordivsi":
        return U(sa // sb, w)
    if name == "arith.ceildivsi":
        return U(-((-sa) // sb), w)
    raise Unsupported(name)


CMPI = {
    0: lambda a, b, w: a == b, 1: lambda a, b, w: a != b,
    2: lambda a, b, w: S(a, w) < S(b, w), 3: lambda a, b, w: S(a, w) <= S(b, w),
    4: lambda a, b, w: S(a, w) > S(b, w), 5: lambda a, b, w: S(a, w) >= S(b, w),
    6: lambda a, b, w: a < b, 7: lambda a, b, w: a <= b,
    8: lambda a, b, w: a > b, 9: lambda a, b, w: a >= b,
}
CMPI_NAMES = ["eq", "ne", "slt", "sle", "sgt", "sge", "ult", "ule", "ugt", "uge"]


def cmpf(p, x, y):
    un = math.isnan(x) or math.isnan(y)
    # 0 false,1 oeq,2 ogt,3 oge,4 olt,5 ole,6 one,7 ord,8 ueq,9 ugt,10 uge,11 ult,12 ule,13 une,14 uno,15 true
    base = {1: x == y, 2: x > y, 3: x >= y, 4: x < y, 5: x <= y, 6: x != y}
    if p == 0:
        return False
    if p == 15:
        return True
    if p == 7:
        return not un
    if p == 14:
        return un
    if 1 <= p <= 6:
        return (not un) and base[p]
    return un or base[p - 7]


def float_bits(x, t):
    n = tname(t)
    if n == "Float64Type":
        return struct.unpack("<Q", struct.pack("<d", x))[0]
    if n == "Float32Type":
        return struct.unpack("<I", struct.pack("<f", x))[0]
    if n == "Float16Type":
        return struct.unpack("<H", struct.pack("<e", x))[0]
    raise Unsupported(f"bits of {t}")


def bits_float(b, t):
    n = tname(t)
    if n == "Float64Type":
        return struct.unpack("<d", struct.pack("<Q", b))[0]
    if n == "Float32Type":
        return struct.unpack("<f", struct.pack("<I", b))[0]
    if n == "Float16Type":
        return struct.unpack("<e", struct.pack("<H", b))[0]
    raise Unsupported(f"bits of {t}")


def observe(v):
    if v is POISON:
        raise Undefined("poison observed")
    if isinstance(v, float):
        return ("f", "nan") if math.isnan(v) else ("f", struct.pack("<d", v).hex())
    if isinstance(v, tuple) and len(v) == 2 and isinstance(v[0], tuple) and v[0] and v[0][0] in ("mem", "arg"):
        return ("memref", v[0])
    return v


def affine_eval(e, dims, syms):
    """Own evaluation of an xdsl AffineExpr tree (class names only; floor semantics)."""
    n = type(e).__name__
    if n == "AffineConstantExpr":
        return e.value
    if n == "AffineDimExpr":
        return dims[e.position]
    if n == "AffineSymExpr":
        return syms[e.position]
    if n == "AffineBinaryOpExpr":
        a, b = affine_eval(e.lhs, dims, syms), affine_eval(e.rhs, dims, syms)
        k = e.kind.name
        if k == "Add":
            return a + b
        if k == "Mul":
            return a * b
        if b <= 0:
            raise Undefined("affine div/mod by non-positive")
        if k == "Mod":
            return a % b
        if k == "FloorDiv":
            return a // b
        if k == "CeilDiv":
            return -((-a) // b)
    raise Unsupported(f"affine expr {n}")


class Machine:
    def __init__(self, module, step_limit=200000):
        self.module = module
        self.funcs = {}
        for o in module.walk():
            if o.name == "func.func":
                self.funcs[o.properties["sym_name"].data] = o
        self.log = []
        self.steps = 0
        self.step_limit = step_limit
        self.mem = {}
        self.symref = {}

    # ---- external calls: deterministic pseudo-random pure function of (name, args)
    def ext(self, name, args, out_types):
        outs = []
        for k, t in enumerate(out_types):
            h = int.from_bytes(hashlib.sha1(repr((name, k, args)).encode()).digest()[:8], "little")
            if is_int(t):
                outs.append(U(h, width(t)))
            elif is_float(t):
                outs.append(fround(float((h % 2001) - 1000) / 8.0, t))
            else:
                raise Unsupported(f"external result type {t}")
        return tuple(outs)

    def call(self, name, args):
        f = self.funcs.get(name)
        if f is None:
            raise Unsupported(f"call to unknown function {name}")
        ftype = f.properties["function_type"]
        if not f.regions[0].blocks:
            oargs = tuple(observe(a) for a in args)
            self.log.append(("extcall", name, oargs))
            return self.ext(name, oargs, list(ftype.outputs.data))
        _, vals = self.run_region(f.regions[0], args, {})
        return tuple(vals)

    def run_region(self, region, args, outer_env):
        env = dict(outer_env)
        block = region.blocks[0] if hasattr(region.blocks, "__getitem__") else region.block
        bargs = list(args)
        while True:
            bas = list(block.args)
            if len(bas) != len(bargs):
                raise Unsupported("block argument count mismatch")
            for a, x in zip(bas, bargs):
                env[a] = x
            nxt = None
            for op in block.ops:
                self.steps += 1
                if self.steps > self.step_limit:
                    raise StepLimit()
                r = self.run_op(op, env)
                if r is not None:
                    if r[0] == "__term__":
                        return r[1], r[2]
                    if r[0] == "__br__":
                        nxt = r
                        break
            if nxt is None:
                raise Unsupported("block without terminator")
            block, bargs = nxt[1], nxt[2]

    def _prop(self, op, name):
        if name in op.properties:
            return op.properties[name]
        if name in op.attributes:
            return op.attributes[name]
        raise Unsupported(f"{op.name} without {name}")

    def run_op(self, op, env):  # noqa: C901
        n = op.name
        ops = op.operands
        res = op.results

        def g(i):
            return env[ops[i]]

        def setr(*vals):
            if len(vals) != len(res):
                raise Unsupported(f"{n}: result count mismatch")
            for r, x in zip(res, vals):
                env[r] = x

        if n == "arith.constant":
            v = self._prop(op, "value")
            vn = type(v).__name__
            if vn == "IntegerAttr":
                setr(U(v.value.data, width(res[0].type)))
            elif vn == "FloatAttr":
                setr(fround(v.value.data, res[0].type))
            else:
                raise Unsupported("constant kind " + vn)
            return None
        if n in INT_BIN:
            a, b, w = g(0), g(1), width(res[0].type)
            setr(POISON if a is POISON or b is POISON else INT_BIN[n](a, b, w))
            return None
        if n in INT_DIV:
            a, b, w = g(0), g(1), width(res[0].type)
            if a is POISON or b is POISON:
                raise Undefined("poison in division")
            setr(int_div(n, a, b, w))
            return None
        if n in ("arith.addui_extended", "arith.mului_extended", "arith.mulsi_extended"):
            a, b, w = g(0), g(1), width(res[0].type)
            if a is POISON or b is POISON:
                setr(POISON, POISON)
            elif n == "arith.addui_extended":
                setr(U(a + b, w), int(a + b >= (1 << w)))
            elif n == "arith.mului_extended":
                setr(U(a * b, w), U((a * b) >> w, w))
            else:
                p = S(a, w) * S(b, w)
                setr(U(p, w), U(p >> w, w))
            return None
        if n in FLT_BIN:
            a, b, t = g(0), g(1), res[0].type
            if a is POISON or b is POISON:
                setr(POISON)
                return None
            if n == "arith.addf":
                r = fadd(a, b)
            elif n == "arith.subf":
                r = fadd(a, -b)
            elif n == "arith.mulf":
                r = fmul(a, b)
            elif n == "arith.divf":
                r = fdiv(a, b)
            elif n == "arith.maximumf":
                r = _fmaxmin(a, b, True, True)
            elif n == "arith.minimumf":
                r = _fmaxmin(a, b, False, True)
            elif n == "arith.maxnumf":
                r = _fmaxmin(a, b, True, False)
            else:
                r = _fmaxmin(a, b, False, False)
            setr(fround(r, t))
            return None
        if n == "arith.negf":
            a = g(0)
            setr(POISON if a is POISON else -a)
            return None
        if n == "arith.cmpi":
            a, b, w = g(0), g(1), width(ops[0].type)
            p = self._prop(op, "predicate").value.data
            setr(POISON if a is POISON or b is POISON else int(CMPI[p](a, b, w)))
            return None
        if n == "arith.cmpf":
            a, b = g(0), g(1)
            p = self._prop(op, "predicate").value.data
            setr(POISON if a is POISON or b is POISON else int(cmpf(p, a, b)))
            return None
        if n == "arith.select":
            c, a, b = g(0), g(1), g(2)
            setr(POISON if c is POISON else (a if c else b))
            return None
        if n in ("arith.extsi", "arith.extui", "arith.trunci", "arith.index_cast", "arith.index_castui"):
            a = g(0)
            wi, wo = width(ops[0].type), width(res[0].type)
            if a is POISON:
                setr(POISON)
            elif n in ("arith.extsi", "arith.index_cast"):
                setr(U(S(a, wi), wo))
            else:
                setr(U(a, wo))
            return None
        if n in ("arith.sitofp", "arith.uitofp"):
            a = g(0)
            if a is POISON:
                setr(POISON)
                return None
            x = S(a, width(ops[0].type)) if n == "arith.sitofp" else a
            t = res[0].type
            # exact int -> nearest float of the target precision (single rounding)
            if tname(t) == "Float64Type":
                setr(float(x))
            elif tname(t) == "Float32Type" and abs(x) < (1 << 53):
                setr(fround(float(x), t))
            else:
                raise Unsupported("int->float needing double rounding care")
            return None
        if n in ("arith.fptosi", "arith.fptoui"):
            a = g(0)
            w = width(res[0].type)
            if a is POISON or math.isnan(a) or math.isinf(a):
                setr(POISON)
                return None
            x = math.trunc(a)
            lo, hi = (-(1 << (w - 1)), (1 << (w - 1)) - 1) if n == "arith.fptosi" else (0, (1 << w) - 1)
            setr(U(x, w) if lo <= x <= hi else POISON)
            return None
        if n in ("arith.extf", "arith.truncf"):
            a = g(0)
            setr(POISON if a is POISON else fround(a, res[0].type))
            return None
        if n == "arith.bitcast":
            a = g(0)
            ti, to = ops[0].type, res[0].type
            if a is POISON:
                setr(POISON)
            elif is_int(ti) and is_float(to):
                setr(bits_float(a, to))
            elif is_float(ti) and is_int(to):
                if math.isnan(a):
                    raise Unsupported("bitcast of NaN (payload not tracked)")
                setr(float_bits(a, ti))
            elif is_int(ti) and is_int(to):
                setr(a)
            else:
                setr(a)
            return None
        if n == "func.return":
            return ("__term__", "return", [env[o] for o in ops])
        if n in ("scf.yield", "affine.yield"):
            return ("__term__", "yield", [env[o] for o in ops])
        if n == "scf.condition":
            return ("__term__", "condition", [env[o] for o in ops])
        if n == "func.call":
            callee = self._prop(op, "callee")
            setr(*self.call(callee.root_reference.data, [env[o] for o in ops]))
            return None
        if n == "cf.br":
            return ("__br__", op.successors[0], [env[o] for o in ops])
        if n == "cf.cond_br":
            c = g(0)
            if c is POISON:
                raise Undefined("branch on poison")
            seg = self._prop(op, "operandSegmentSizes")
            sizes = list(seg.get_values()) if hasattr(seg, "get_values") else list(seg.data)
            nt = sizes[1]
            then_args = [env[o] for o in ops[1:1 + nt]]
            else_args = [env[o] for o in ops[1 + nt:]]
            return ("__br__", op.successors[0], then_args) if c else ("__br__", op.successors[1], else_args)
        if n == "scf.if":
            c = g(0)
            if c is POISON:
                raise Undefined("branch on poison")
            reg = op.regions[0] if c else op.regions[1]
            if not reg.blocks:
                setr()
                return None
            _, vals = self.run_region(reg, [], env)
            setr(*vals)
            return None
        if n == "scf.for":
            lb, ub, step = g(0), g(1), g(2)
            w = width(ops[0].type)
            if POISON in (lb, ub, step):
                raise Undefined("poison loop bound")
            if S(step, w) <= 0:
                raise Undefined("non-positive step")
            carried = [env[o] for o in ops[3:]]
            i = S(lb, w)
            while i < S(ub, w):
                _, carried = self.run_region(op.regions[0], [U(i, w)] + carried, env)
                i += S(step, w)
                self.steps += 1
                if self.steps > self.step_limit:
                    raise StepLimit()
            setr(*carried)
            return None
        if n == "scf.while":
            carried = [env[o] for o in ops]
            while True:
                _, vals = self.run_region(op.regions[0], carried, env)
                c, rest = vals[0], vals[1:]
                if c is POISON:
                    raise Undefined("branch on poison")
                if not c:
                    setr(*rest)
                    return None
                _, carried = self.run_region(op.regions[1], rest, env)
        if n in ("memref.alloc", "memref.alloca"):
            shape = [d.data if hasattr(d, "data") else d for d in res[0].type.shape.data]
            if any(d < 0 for d in shape):
                raise Unsupported("dynamic memref")
            size = 1
            for d in shape:
                size *= d
            h = ("mem", len(self.mem))
            self.mem[h] = [POISON] * size
            setr((h, tuple(shape)))
            return None
        if n == "memref.dealloc":
            return None
        if n == "memref.load":
            (h, shape), idx = g(0), [env[o] for o in ops[1:]]
            setr(self.mem[h][self._lin(shape, idx)])
            return None
        if n == "memref.store":
            v, (h, shape), idx = g(0), g(1), [env[o] for o in ops[2:]]
            lin = self._lin(shape, idx)
            self.mem[h][lin] = v
            if h[0] == "arg":
                self.log.append(("store", h, lin, observe(v)))
            return None
        if n == "affine.apply":
            m = self._prop(op, "map").data
            vals = self._idx_vals([env[o] for o in ops])
            setr(U(affine_eval(m.results[0], vals[:m.num_dims], vals[m.num_dims:]), INDEX_W))
            return None
        if n in ("affine.load", "affine.store"):
            k = 0 if n == "affine.load" else 1
            (h, shape) = g(k)
            m = self._prop(op, "map").data
            vals = self._idx_vals([env[o] for o in ops[k + 1:]])
            idx = [U(affine_eval(e, vals[:m.num_dims], vals[m.num_dims:]), INDEX_W) for e in m.results]
            lin = self._lin(shape, idx)
            if n == "affine.load":
                setr(self.mem[h][lin])
            else:
                v = g(0)
                self.mem[h][lin] = v
                if h[0] == "arg":
                    self.log.append(("store", h, lin, observe(v)))
            return None
        if n == "affine.for":
            lbm, ubm = self._prop(op, "lowerBoundMap").data, self._prop(op, "upperBoundMap").data
            step = self._prop(op, "step").value.data
            seg = self._prop(op, "operandSegmentSizes")
            sizes = list(seg.get_values())
            allv = [env[o] for o in ops]
            lbo = self._idx_vals(allv[:sizes[0]])
            ubo = self._idx_vals(allv[sizes[0]:sizes[0] + sizes[1]])
            carried = allv[sizes[0] + sizes[1]:]
            lb = max(affine_eval(e, lbo[:lbm.num_dims], lbo[lbm.num_dims:]) for e in lbm.results)
            ub = min(affine_eval(e, ubo[:ubm.num_dims], ubo[ubm.num_dims:]) for e in ubm.results)
            if step <= 0:
                raise Undefined("non-positive affine step")
            i = lb
            while i < ub:
                _, carried = self.run_region(op.regions[0], [U(i, INDEX_W)] + carried, env)
                i += step
                self.steps += 1
                if self.steps > self.step_limit:
                    raise StepLimit()
            setr(*carried)
            return None
        if n == "symref.declare":
            self.symref[self._prop(op, "sym_name").data] = POISON
            return None
        if n == "symref.update":
            self.symref[self._prop(op, "symbol").root_reference.data] = g(0)
            return None
        if n == "symref.fetch":
            setr(self.symref[self._prop(op, "symbol").root_reference.data])
            return None
        if n in ("test.op_with_memwrite", "test.op", "printf.print_format"):
            self.log.append((n, tuple(observe(env[o]) for o in ops)))
            setr(*[self._opaque(r.type, n, k) for k, r in enumerate(res)])
            return None
        if n in ("test.pureop", "test.op_with_memread"):
            # opaque but deterministic function of the operands
            args = tuple(observe(env[o]) if env[o] is not POISON else "poison" for o in ops)
            setr(*[self._opaque(r.type, (n, args), k) for k, r in enumerate(res)])
            return None
        raise Unsupported(n)

    def _opaque(self, t, tag, k):
        h = int.from_bytes(hashlib.sha1(repr((tag, k)).encode()).digest()[:8], "little")
        if is_int(t):
            return U(h, width(t))
        if is_float(t):
            return fround(float((h % 2001) - 1000) / 8.0, t)
        raise Unsupported(f"opaque result type {t}")

    def _idx_vals(self, vals):
        out = []
        for v in vals:
            if v is POISON:
                raise Undefined("poison index")
            out.append(S(v, INDEX_W))
        return out

    def _lin(self, shape, idx):
        if len(shape) != len(idx):
            raise Unsupported("rank mismatch")
        lin = 0
        for d, i in zip(shape, idx):
            if i is POISON:
                raise Undefined("poison index")
            si = S(i, INDEX_W)
            if not (0 <= si < d):
                raise Undefined("out of bounds")
            lin = lin * d + si
        return lin


def run(module, fname, args, step_limit=200000):
    m = Machine(module, step_limit)
    real = []
    margs = []
    for k, a in enumerate(args):
        if isinstance(a, (tuple, list)) and a and a[0] == "memref":
            h = ("arg", k)
            m.mem[h] = list(a[2])
            real.append((h, tuple(a[1])))
            margs.append(h)
        else:
            real.append(a)
    vals = m.call(fname, real)
    out = [observe(v) for v in vals]
    for h in margs:
        out.append(("mem", tuple("poison" if x is POISON else observe(x) for x in m.mem[h])))
    return out, m.log
