"""C23 directed shapes: hand-written hostile llvm-dialect modules with hand-computed expected results.

Each shape: name, module text, `calls` = [(function, [arg types], ret type, [args as bit patterns], expected bits)],
`must` = regexes the emitted LLVM IR has to match (key suffix on failure), `mustnot` likewise.
Every shape is valid MLIR for the upstream llvm dialect; whatever the backend does with it is classified by the
generic pipeline (LLVM rejects -> violation, convert_module raises -> counted as not translated / crash site)."""

SHAPES = []


def shape(name, text, calls=(), must=(), mustnot=()):
    SHAPES.append({"name": name, "text": text, "calls": list(calls), "must": list(must), "mustnot": list(mustnot)})


shape("condbr-same-dest-different-args", """
builtin.module {
  llvm.func @f(%c: i1, %x: i32, %y: i32) -> i32 {
    llvm.cond_br %c, ^bb1(%x : i32), ^bb1(%y : i32)
  ^bb1(%r: i32):
    llvm.return %r : i32
  }
}""", calls=[("f", ["i1", "i32", "i32"], "i32", [1, 7, 9], 7), ("f", ["i1", "i32", "i32"], "i32", [0, 7, 9], 9)])

shape("condbr-same-dest-same-args", """
builtin.module {
  llvm.func @f(%c: i1, %x: i32) -> i32 {
    llvm.cond_br %c, ^bb1(%x : i32), ^bb1(%x : i32)
  ^bb1(%r: i32):
    llvm.return %r : i32
  }
  llvm.func @g(%c: i1, %x: i32) -> i32 {
    llvm.cond_br %c, ^bb1, ^bb1
  ^bb1:
    llvm.return %x : i32
  }
}""", calls=[("f", ["i1", "i32"], "i32", [1, 5], 5), ("g", ["i1", "i32"], "i32", [0, 6], 6)])

shape("block-and-symbol-names", """
builtin.module {
  llvm.func @named_entry() -> i32 {
  ^entry:
    %0 = llvm.mlir.constant(3 : i32) : i32
    llvm.br ^entry_1
  ^entry_1:
    llvm.br ^ret
  ^ret:
    llvm.return %0 : i32
  }
  llvm.func @"a b"() -> i32 {
    %0 = llvm.call @named_entry() : () -> i32
    llvm.return %0 : i32
  }
  llvm.func @"q\\"uote"() -> i32 {
    %0 = llvm.call @"a b"() : () -> i32
    llvm.return %0 : i32
  }
}""", calls=[("named_entry", [], "i32", [], 3), ("a b", [], "i32", [], 3), ('q"uote', [], "i32", [], 3)])

shape("global-external-linkage-with-initializer", """
builtin.module {
  llvm.mlir.global external @g(42 : i32) : i32
  llvm.mlir.global external constant @k(dense<[1, 2, 3]> : tensor<3xi16>) : !llvm.array<3 x i16>
  llvm.func @f() -> i32 {
    %p = llvm.mlir.addressof @g : !llvm.ptr
    %v = llvm.load %p : !llvm.ptr -> i32
    llvm.return %v : i32
  }
}""", calls=[("f", [], "i32", [], 42)])

shape("global-default-linkage-declaration", """
builtin.module {
  llvm.mlir.global external @ext() : i32
  llvm.mlir.global internal @z() : i64
  llvm.mlir.global internal @as1(7 : i32) {addr_space = 1 : i32} : i32
  llvm.func @f() -> i64 {
    %p = llvm.mlir.addressof @z : !llvm.ptr
    %c = llvm.mlir.constant(11 : i64) : i64
    llvm.store %c, %p : i64, !llvm.ptr
    %v = llvm.load %p : !llvm.ptr -> i64
    llvm.return %v : i64
  }
}""", calls=[("f", [], "i64", [], 11)])

shape("same-intrinsic-two-types", """
builtin.module {
  llvm.func @f(%a: f32, %b: f64) -> f64 {
    %0 = llvm.intr.fabs(%a) : (f32) -> f32
    %1 = llvm.intr.fabs(%b) : (f64) -> f64
    %2 = llvm.fpext %0 : f32 to f64
    %3 = llvm.fadd %1, %2 : f64
    llvm.return %3 : f64
  }
}""", calls=[("f", ["f32", "f64"], "f64", [0xBF800000, 0xC000000000000000], 0x4008000000000000)])

shape("fcmp-true-false-predicates", """
builtin.module {
  llvm.func @f(%a: f32, %b: f32) -> i1 {
    %0 = llvm.fcmp "_true" %a, %b : f32
    %1 = llvm.fcmp "_false" %a, %b : f32
    %2 = llvm.xor %0, %1 : i1
    llvm.return %2 : i1
  }
}""", calls=[("f", ["f32", "f32"], "i1", [0x7FC00000, 0], 1)])

shape("shufflevector-poison-lane", """
builtin.module {
  llvm.func @f(%a: i64, %b: i64) -> i32 {
    %x = llvm.bitcast %a : i64 to vector<2xi32>
    %y = llvm.bitcast %b : i64 to vector<2xi32>
    %s = llvm.shufflevector %x, %y [3, -1] : vector<2xi32>
    %i = llvm.bitcast %s : vector<2xi32> to i64
    %t = llvm.trunc %i : i64 to i32
    llvm.return %t : i32
  }
}""", calls=[("f", ["i64", "i64"], "i32", [0x1111111122222222, 0x3333333344444444], 0x33333333)])

shape("store-through-gep", """
builtin.module {
  llvm.func @f(%v: i32) -> i32 {
    %c = llvm.mlir.constant(1 : i32) : i32
    %a = llvm.alloca %c x !llvm.array<4 x i32> : (i32) -> !llvm.ptr
    %g = llvm.getelementptr %a[0, 2] : (!llvm.ptr) -> !llvm.ptr, !llvm.array<4 x i32>
    llvm.store %v, %g : i32, !llvm.ptr
    %r = llvm.load %g : !llvm.ptr -> i32
    llvm.return %r : i32
  }
}""", calls=[("f", ["i32"], "i32", [77], 77)])

shape("block-layout-not-in-dominance-order", """
builtin.module {
  llvm.func @f(%x: i32) -> i32 {
    llvm.br ^bb1
  ^bb2:
    %b = llvm.add %a, %x : i32
    llvm.return %b : i32
  ^bb1:
    %a = llvm.add %x, %x : i32
    llvm.br ^bb2
  }
}""", calls=[("f", ["i32"], "i32", [5], 15)])

shape("fastcc-function-and-call", """
builtin.module {
  llvm.func fastcc @h(%a: i64, %b: i64, %c: i64, %d: i64, %e: i64, %f: i64, %g: i64) -> i64 {
    %0 = llvm.sub %a, %g : i64
    llvm.return %0 : i64
  }
  llvm.func @f(%a: i64) -> i64 {
    %one = llvm.mlir.constant(1 : i64) : i64
    %0 = llvm.call fastcc @h(%a, %a, %a, %a, %a, %a, %one) : (i64, i64, i64, i64, i64, i64, i64) -> i64
    llvm.return %0 : i64
  }
}""", calls=[("f", ["i64"], "i64", [10], 9)], must=[(r"define fastcc i64 @\"?h", "func-cconv-dropped")])

shape("notail-call-with-caller-alloca", """
builtin.module {
  llvm.func @callee(%p: !llvm.ptr) -> i64 {
    %c = llvm.mlir.constant(8 : i32) : i32
    %scratch = llvm.alloca %c x i64 : (i32) -> !llvm.ptr
    %z = llvm.mlir.constant(-1 : i64) : i64
    llvm.store %z, %scratch : i64, !llvm.ptr
    %v = llvm.load %p : !llvm.ptr -> i64
    %w = llvm.load %scratch : !llvm.ptr -> i64
    %r = llvm.and %v, %w : i64
    llvm.return %r : i64
  }
  llvm.func @f(%x: i64) -> i64 {
    %c = llvm.mlir.constant(1 : i32) : i32
    %a = llvm.alloca %c x i64 : (i32) -> !llvm.ptr
    llvm.store %x, %a : i64, !llvm.ptr
    %r = llvm.call notail @callee(%a) : (!llvm.ptr) -> i64
    llvm.return %r : i64
  }
}""", calls=[("f", ["i64"], "i64", [0x1234], 0x1234)], mustnot=[(r"\btail call\b", "call-notail-emitted-as-tail")])

shape("inline-asm-intel-dialect", """
builtin.module {
  llvm.func @f(%a: i32) -> i32 {
    %0 = llvm.inline_asm asm_dialect = intel "mov $0, $1", "=r,r" %a : (i32) -> i32
    llvm.return %0 : i32
  }
}""", calls=[("f", ["i32"], "i32", [1234567], 1234567)], must=[(r"inteldialect", "inline-asm-dialect-dropped")])

shape("inline-asm-att", """
builtin.module {
  llvm.func @f(%a: i64, %b: i64) -> i64 {
    %0 = llvm.inline_asm asm_dialect = att "mov $1, $0\\0Asub $2, $0", "=&r,r,r,~{flags}" %a, %b : (i64, i64) -> i64
    llvm.inline_asm has_side_effects is_align_stack "nop", "" : () -> ()
    llvm.return %0 : i64
  }
}""", calls=[("f", ["i64", "i64"], "i64", [10, 3], 7)])

shape("musttail-call", """
builtin.module {
  llvm.func @h(%a: i32) -> i32 {
    %one = llvm.mlir.constant(1 : i32) : i32
    %0 = llvm.add %a, %one : i32
    llvm.return %0 : i32
  }
  llvm.func @f(%a: i32) -> i32 {
    %0 = llvm.call musttail @h(%a) : (i32) -> i32
    llvm.return %0 : i32
  }
  llvm.func @g(%a: i32) -> i32 {
    %0 = llvm.call tail @h(%a) : (i32) -> i32
    llvm.return %0 : i32
  }
}""", calls=[("f", ["i32"], "i32", [4], 5), ("g", ["i32"], "i32", [4], 5)])

shape("global-alignment-and-vector-access", """
builtin.module {
  llvm.mlir.global internal @pad(1 : i8) : i8
  llvm.mlir.global internal @v(dense<[1.0, 2.0, 3.0, 4.0]> : tensor<4xf32>) {alignment = 16 : i64} : !llvm.array<4 x f32>
  llvm.func @f() -> f32 {
    %p = llvm.mlir.addressof @v : !llvm.ptr
    %x = llvm.load %p {alignment = 16 : i64} : !llvm.ptr -> vector<4xf32>
    %z = llvm.mlir.constant(0.0 : f32) : f32
    %r = "llvm.intr.vector.reduce.fadd"(%z, %x) <{fastmathFlags = #llvm.fastmath<none>}> : (f32, vector<4xf32>) -> f32
    llvm.return %r : f32
  }
}""", calls=[("f", [], "f32", [], 0x41200000)], must=[(r"@\"?v\"? = .*align 16", "global-alignment-dropped")])

shape("variadic-definition-and-call", """
builtin.module {
  llvm.func @v(%a: i32, ...) -> i32 {
    llvm.return %a : i32
  }
  llvm.func @f(%a: i32, %d: f64) -> i32 {
    %r = llvm.call @v(%a, %d, %a) vararg(!llvm.func<i32 (i32, ...)>) : (i32, f64, i32) -> i32
    llvm.return %r : i32
  }
}""", calls=[("f", ["i32", "f64"], "i32", [9, 0x4000000000000000], 9)])

shape("struct-return-and-recursion", """
builtin.module {
  llvm.func @pair(%a: i32, %b: i64) -> !llvm.struct<(i32, i64)> {
    %u = llvm.mlir.undef : !llvm.struct<(i32, i64)>
    %0 = llvm.insertvalue %a, %u[0] : !llvm.struct<(i32, i64)>
    %1 = llvm.insertvalue %b, %0[1] : !llvm.struct<(i32, i64)>
    llvm.return %1 : !llvm.struct<(i32, i64)>
  }
  llvm.func @f(%a: i32, %b: i64) -> i64 {
    %s = llvm.call @pair(%a, %b) : (i32, i64) -> !llvm.struct<(i32, i64)>
    %x = llvm.extractvalue %s[0] : !llvm.struct<(i32, i64)>
    %y = llvm.extractvalue %s[1] : !llvm.struct<(i32, i64)>
    %z = llvm.sext %x : i32 to i64
    %r = llvm.sub %y, %z : i64
    llvm.return %r : i64
  }
  llvm.func @fact(%n: i64) -> i64 {
    %one = llvm.mlir.constant(1 : i64) : i64
    %c = llvm.icmp "ule" %n, %one : i64
    llvm.cond_br %c, ^base, ^rec
  ^base:
    llvm.return %one : i64
  ^rec:
    %m = llvm.sub %n, %one : i64
    %r = llvm.call @fact(%m) : (i64) -> i64
    %p = llvm.mul %n, %r : i64
    llvm.return %p : i64
  }
}""", calls=[("f", ["i32", "i64"], "i64", [0xFFFFFFFF, 10], 11), ("fact", ["i64"], "i64", [10], 3628800)])

shape("dynamic-alloca-and-libc-call", """
builtin.module {
  llvm.func @abs(i32) -> i32
  llvm.func @f(%n: i32, %x: i32) -> i32 {
    %a = llvm.alloca %n x i32 : (i32) -> !llvm.ptr
    %one = llvm.mlir.constant(1 : i32) : i32
    %last = llvm.sub %n, %one : i32
    %g = llvm.getelementptr inbounds %a[%last] : (!llvm.ptr, i32) -> !llvm.ptr, i32
    llvm.store %x, %g : i32, !llvm.ptr
    %v = llvm.load %g : !llvm.ptr -> i32
    %r = llvm.call @abs(%v) : (i32) -> i32
    llvm.return %r : i32
  }
}""", calls=[("f", ["i32", "i32"], "i32", [100, 0xFFFFFFF9], 7)])

shape("atomic-volatile-addrspace", """
builtin.module {
  llvm.func @f(%p: !llvm.ptr, %q: !llvm.ptr<1>, %v: i32) -> i32 {
    %0 = llvm.load %p atomic monotonic {alignment = 4 : i64} : !llvm.ptr -> i32
    llvm.store volatile %v, %p {alignment = 4 : i64} : i32, !llvm.ptr
    %1 = llvm.load %q : !llvm.ptr<1> -> i32
    %2 = llvm.ptrtoint %p : !llvm.ptr to i32
    %3 = llvm.inttoptr %2 : i32 to !llvm.ptr
    llvm.return %0 : i32
  }
}""")

shape("wide-and-tiny-integers", """
builtin.module {
  llvm.func @f(%a: i64, %b: i64) -> i64 {
    %x = llvm.zext %a : i64 to i128
    %y = llvm.sext %b : i64 to i128
    %m = llvm.mul %x, %y : i128
    %c = llvm.mlir.constant(64 : i128) : i128
    %h = llvm.lshr %m, %c : i128
    %t = llvm.trunc %h : i128 to i64
    %o = llvm.trunc %a : i64 to i1
    %p = llvm.add %o, %o : i1
    %q = llvm.sext %p : i1 to i64
    %r = llvm.xor %t, %q : i64
    llvm.return %r : i64
  }
}""", calls=[("f", ["i64", "i64"], "i64", [0xFFFFFFFFFFFFFFFF, 0xFFFFFFFFFFFFFFFF], 0xFFFFFFFFFFFFFFFF),
             ("f", ["i64", "i64"], "i64", [3, 5], 0)])

shape("unreachable-only-and-void", """
builtin.module {
  llvm.func @never() {
    llvm.unreachable
  }
  llvm.func @nothing() {
    llvm.call_intrinsic "llvm.donothing"() : () -> ()
    llvm.return
  }
  llvm.func internal @hidden(%a: i8 {llvm.signext}) -> (i8 {llvm.signext}) {
    llvm.return %a : i8
  }
}""")

shape("select-between-alloca-and-null-pointer", """
builtin.module {
  llvm.func @f(%c: i1, %v: i32) -> i32 {
    %one = llvm.mlir.constant(1 : i32) : i32
    %a = llvm.alloca %one x i32 : (i32) -> !llvm.ptr
    %b = llvm.alloca %one x i32 : (i32) -> !llvm.ptr
    %z = llvm.mlir.zero : !llvm.ptr
    llvm.store %v, %a : i32, !llvm.ptr
    llvm.store %one, %b : i32, !llvm.ptr
    %p = llvm.select %c, %a, %b : i1, !llvm.ptr
    %q = llvm.select %c, %p, %z : i1, !llvm.ptr
    %r = llvm.load %p : !llvm.ptr -> i32
    llvm.return %r : i32
  }
}""", calls=[("f", ["i1", "i32"], "i32", [1, 99], 99), ("f", ["i1", "i32"], "i32", [0, 99], 1)])

shape("inline-asm-template-with-quote", """
builtin.module {
  llvm.func @f(%a: i32) -> i32 {
    %0 = llvm.inline_asm "mov $1, $0 # \\"copy\\"", "=r,r" %a : (i32) -> i32
    llvm.return %0 : i32
  }
}""", calls=[("f", ["i32"], "i32", [31337], 31337)])

shape("phi-of-pointers-and-loop-carried-memory", """
builtin.module {
  llvm.func @f(%n: i32) -> i32 {
    %one = llvm.mlir.constant(1 : i32) : i32
    %zero = llvm.mlir.constant(0 : i32) : i32
    %four = llvm.mlir.constant(4 : i32) : i32
    %a = llvm.alloca %four x i32 : (i32) -> !llvm.ptr
    llvm.store %zero, %a : i32, !llvm.ptr
    llvm.br ^head(%zero, %a : i32, !llvm.ptr)
  ^head(%i: i32, %p: !llvm.ptr):
    %c = llvm.icmp "slt" %i, %n : i32
    llvm.cond_br %c, ^body, ^done(%p : !llvm.ptr)
  ^body:
    %v = llvm.load %p : !llvm.ptr -> i32
    %w = llvm.add %v, %i : i32
    llvm.store %w, %p : i32, !llvm.ptr
    %j = llvm.add %i, %one : i32
    llvm.br ^head(%j, %p : i32, !llvm.ptr)
  ^done(%q: !llvm.ptr):
    %r = llvm.load %q : !llvm.ptr -> i32
    llvm.return %r : i32
  }
}""", calls=[("f", ["i32"], "i32", [5], 10), ("f", ["i32"], "i32", [0], 0)])

shape("exotic-types", """
builtin.module {
  llvm.func @f(%v: f32, %c: i1) -> f32 {
    %one = llvm.mlir.constant(1 : i32) : i32
    %a = llvm.alloca %one x complex<f32> : (i32) -> !llvm.ptr
    %b = llvm.alloca %one x tuple<i32, f32> {alignment = 8 : i64} : (i32) -> !llvm.ptr
    %g = llvm.getelementptr %a[0] : (!llvm.ptr) -> !llvm.ptr, f32
    llvm.store %v, %g : f32, !llvm.ptr
    %r = llvm.load %g : !llvm.ptr -> f32
    %u0 = llvm.mlir.undef : !llvm.func<i32 (i32, ...)>
    %u1 = llvm.mlir.undef : (i32, f64) -> i32
    %u2 = llvm.mlir.undef : () -> ()
    %u3 = llvm.mlir.undef : complex<f64>
    %u4 = llvm.mlir.undef : tuple<i8, tuple<i16, f64>>
    %u5 = llvm.mlir.undef : !llvm.struct<"named", (i32, !llvm.ptr<3>)>
    %s = llvm.select %c, %u3, %u3 : i1, complex<f64>
    %t = llvm.select %c, %u4, %u4 : i1, tuple<i8, tuple<i16, f64>>
    llvm.return %r : f32
  }
}""", calls=[("f", ["f32", "i1"], "f32", [0x40490FDB, 1], 0x40490FDB)])
