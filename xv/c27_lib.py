"""C27 helpers: run one PDL pattern over one payload (same module) on the two paths, under an invocation counter.

Path A: the real `ApplyPDLPass.apply` (PDLRewritePattern under GreedyRewritePatternApplier + PatternRewriteWalker).
Path B: the real `ConvertPDLToPDLInterpPass.apply` followed by the real `ApplyPDLInterpPass.apply`
        (PDLInterpRewritePattern under PatternRewriteWalker).

Driver configuration is equalised, not PDL semantics: path A's `GreedyRewritePatternApplier` erases trivially dead
ops before matching (`dce_enabled=True`), path B's bare walker does not.  `run_a(..., dce=False)` therefore builds
the applier with `dce_enabled=False` (by substituting the name `GreedyRewritePatternApplier` inside the module
`xdsl.transforms.apply_pdl` for the duration of the call - the pass body that runs is the shipped one) and BOTH
outputs are additionally normalised by trivial DCE before comparison (DESIGN section 5).

Termination guard: `PDLRewritePattern.match_and_rewrite` / `PDLInterpRewritePattern.match_and_rewrite` are wrapped
by a counter; more than `limit` invocations raise `Diverged` (a BaseException so that the walker's
`except Exception` cannot swallow it).
"""
from __future__ import annotations

import functools
import traceback

_installed = False
_state = {"count": 0, "limit": 10000, "actions": 0, "on": False, "result_index_mismatch": 0, "guard_result_index": False,
          "match_result_calls": 0}


class Diverged(BaseException):
    pass


def install_counters():
    """Wrap the two pattern classes once per process (methods are looked up on the class at call time)."""
    global _installed
    if _installed:
        return
    from xdsl.interpreters.pdl import PDLRewritePattern
    from xdsl.transforms.apply_pdl_interp import PDLInterpRewritePattern

    def wrap(orig):
        @functools.wraps(orig)
        def counted(self, op, rewriter):
            if _state["on"]:
                _state["count"] += 1
                if _state["count"] > _state["limit"]:
                    raise Diverged()
                before = rewriter.has_done_action
                rewriter.has_done_action = False
                try:
                    return orig(self, op, rewriter)
                finally:
                    if rewriter.has_done_action:
                        _state["actions"] += 1
                    rewriter.has_done_action = rewriter.has_done_action or before
            return orig(self, op, rewriter)
        return counted

    PDLRewritePattern.match_and_rewrite = wrap(PDLRewritePattern.match_and_rewrite)

    # Observation point for the known finding "match_result does not check WHICH result of the defining op the
    # operand is": count accepted matches whose operand is not results[index]; with guard_result_index the wrapper
    # additionally rejects them (model of the intended behaviour, used only to classify a disagreement).
    from xdsl.interpreters.pdl import PDLMatcher
    from xdsl.ir import OpResult
    orig_mr = PDLMatcher.match_result

    @functools.wraps(orig_mr)
    def match_result(self, ssa_val, pdl_op, xdsl_operand):
        known = ssa_val in self.matching_context
        ok = orig_mr(self, ssa_val, pdl_op, xdsl_operand)
        if _state["on"]:
            _state["match_result_calls"] += 1
            if ok and not known and isinstance(xdsl_operand, OpResult) and xdsl_operand.index != pdl_op.index.value.data:
                _state["result_index_mismatch"] += 1
                if _state["guard_result_index"]:
                    del self.matching_context[ssa_val]
                    return False
        return ok
    PDLMatcher.match_result = match_result
    PDLInterpRewritePattern.match_and_rewrite = wrap(PDLInterpRewritePattern.match_and_rewrite)
    _installed = True


def exc_key(e: BaseException) -> str:
    """(exception type, innermost raising xdsl function) - mechanism key of a path failure."""
    root = e
    seen = 0
    while getattr(root, "__cause__", None) is not None and seen < 8:
        root = root.__cause__
        seen += 1
    # DiagnosticException from op.emit_error wraps the pattern's exception as underlying_error/__cause__
    tb = traceback.extract_tb(root.__traceback__)
    fn = "?"
    for fr in reversed(tb):
        if "/xdsl/" in fr.filename:
            fn = fr.filename.split("/xdsl/")[-1].replace("/", ".").removesuffix(".py") + ":" + fr.name
            break
    return f"{type(root).__name__}@{fn}"


PATTERN_OPS = ("pdl.pattern", "pdl_interp.func")


def strip_patterns(module):
    """Remove the pattern (path A) / matcher + rewriters module (path B) from the top-level block."""
    for op in list(module.body.block.ops):
        if op.name in PATTERN_OPS or (op.name == "builtin.module"):
            op.detach()
            op.erase(safe_erase=False)


def trivial_dce(module):
    """Normalisation applied to both outputs (not an oracle): xDSL's own trivially-dead test, to a fixpoint."""
    from xdsl.transforms.dead_code_elimination import is_trivially_dead
    changed = True
    n = 0
    while changed:
        changed = False
        for op in list(module.walk(reverse=True)):
            if op is module or op.parent is None:
                continue
            if is_trivially_dead(op):
                op.detach()
                op.erase(safe_erase=False)
                changed = True
                n += 1
    return n


def ir_text(module):
    """Generic-format text (custom printers choke on ill-formed created ops); witness material only."""
    import io
    from xdsl.printer import Printer
    buf = io.StringIO()
    try:
        Printer(stream=buf, print_generic_format=True).print_op(module)
    except Exception as e:  # noqa: BLE001
        return buf.getvalue() + f"\n<unprintable: {type(e).__name__}>"
    return buf.getvalue()


def _finish(module, out):
    from xv.canon import canon_ir
    strip_patterns(module)
    out["text_raw"] = ir_text(module)
    out["canon_raw"] = canon_ir(module)
    out["n_dce"] = trivial_dce(module)
    out["canon"] = canon_ir(module)
    out["text"] = ir_text(module)
    return out


def _run(text, limit, body):
    from xdsl.parser import Parser
    from xv.corpus import new_ctx
    install_counters()
    ctx = new_ctx()
    out = {"status": "ok", "invocations": 0, "actions": 0}
    try:
        module = Parser(ctx, text).parse_module()
    except Exception as e:  # noqa: BLE001
        out["status"] = "unparsable"
        out["exc"] = exc_key(e)
        return out
    _state.update(count=0, actions=0, limit=limit, on=True, result_index_mismatch=0, match_result_calls=0)
    try:
        body(ctx, module)
    except Diverged:
        out["status"] = "diverged"
    except Exception as e:  # noqa: BLE001
        out["status"] = "raised"
        out["exc"] = exc_key(e)
        out["msg"] = str(e).strip().splitlines()[-1][:160] if str(e).strip() else ""
    finally:
        _state["on"] = False
        out["invocations"] = _state["count"]
        out["actions"] = _state["actions"]
        out["result_index_mismatch"] = _state["result_index_mismatch"]
        out["match_result_calls"] = _state["match_result_calls"]
    if out["status"] == "ok":
        _finish(module, out)
    return out


def run_a(text, limit=10000, dce=False, guard_result_index=False):
    import xdsl.transforms.apply_pdl as ap
    from xdsl.pattern_rewriter import GreedyRewritePatternApplier

    def body(ctx, module):
        saved = ap.GreedyRewritePatternApplier
        if not dce:
            ap.GreedyRewritePatternApplier = functools.partial(GreedyRewritePatternApplier, dce_enabled=False)
        _state["guard_result_index"] = guard_result_index
        try:
            ap.ApplyPDLPass().apply(ctx, module)
        finally:
            ap.GreedyRewritePatternApplier = saved
            _state["guard_result_index"] = False
    return _run(text, limit, body)


def run_b(text, limit=10000, keep_matcher=False):
    from xdsl.transforms.apply_pdl_interp import ApplyPDLInterpPass
    from xdsl.transforms.convert_pdl_to_pdl_interp.conversion import ConvertPDLToPDLInterpPass
    extra = {}

    def body(ctx, module):
        _state["on"] = False
        try:
            ConvertPDLToPDLInterpPass().apply(ctx, module)
        except Exception:
            extra["stage"] = "convert"
            raise
        finally:
            _state["on"] = True
        ops: dict = {}
        for o in module.walk():
            if o.name.startswith("pdl_interp."):
                ops[o.name] = ops.get(o.name, 0) + 1
        extra["interp_ops"] = ops
        if keep_matcher:
            extra["matcher"] = "\n".join(str(o) for o in module.body.block.ops if o.name in ("pdl_interp.func", "builtin.module"))
        extra["stage"] = "apply"
        ApplyPDLInterpPass().apply(ctx, module)
    out = _run(text, limit, body)
    out.update(extra)
    return out


def outcome(o):
    """Comparable summary of a path result (raw canonical form: both drivers run without dead-code erasure)."""
    if o["status"] == "ok":
        return ("ok", o["canon_raw"])
    return (o["status"],)


def relax_falsy_constants(text):
    """Wrong-behaviour model of the known finding: the same module with every `pdl.attribute = V` of the MATCH
    section whose constant V is falsy in Python (`bool(V) is False`: IntegerAttr 0, empty ArrayAttr) and that has
    no value type turned into an unconstrained `pdl.attribute`.  Returns (new text, number of relaxed ops)."""
    from xdsl.dialects import pdl
    from xdsl.parser import Parser
    from xv.corpus import new_ctx
    ctx = new_ctx()
    module = Parser(ctx, text).parse_module()
    n = 0
    for op in module.walk():
        if isinstance(op, pdl.AttributeOp) and isinstance(op.parent_op(), pdl.PatternOp):
            v = op.properties.get("value")
            if v is not None and op.value_type is None and not bool(v):
                del op.properties["value"]
                n += 1
    return str(module), n


FALSY_KEY = "convert-pdl-to-pdl-interp:falsy-constant-attribute-constraint-dropped"
RESIDX_KEY = "pdl-matcher:match_result-ignores-result-index"
REPRES_KEY = "convert-pdl-to-pdl-interp:repeated-pdl-result-operand-unconstrained"


def relax_repeated_results(text):
    """Wrong-behaviour model of the known finding REPRES: the conversion's tree walk adds no predicate when it meets
    a `pdl.result` value for the second time (pdl.ResultOp is missing from the 'already visited' equality list), so
    every further use of that value as an operand is unconstrained.  Model: the same module where every use after
    the first (in the conversion's traversal order: root first, operands in order, defining ops depth-first) is a
    fresh unconstrained `pdl.operand`.  Returns (new text, number of decoupled uses)."""
    from xdsl.dialects import pdl
    from xdsl.parser import Parser
    from xdsl.rewriter import InsertPoint, Rewriter
    from xv.corpus import new_ctx
    ctx = new_ctx()
    module = Parser(ctx, text).parse_module()
    n = 0
    for pat in [o for o in module.walk() if isinstance(o, pdl.PatternOp)]:
        rw = pat.body.block.last_op
        if not isinstance(rw, pdl.RewriteOp) or rw.root is None:
            continue
        seen_vals: set = set()
        seen_ops: set = set()

        def visit(op_op):
            nonlocal n
            if op_op in seen_ops:
                return
            seen_ops.add(op_op)
            for i, v in enumerate(list(op_op.operand_values)):
                owner = v.owner
                if isinstance(owner, pdl.ResultOp):
                    if v in seen_vals:
                        fresh = pdl.OperandOp()
                        Rewriter.insert_op(fresh, InsertPoint.before(op_op))
                        op_op.operands[i] = fresh.value
                        n += 1
                        continue
                    seen_vals.add(v)
                    parent = owner.parent_.owner
                    if isinstance(parent, pdl.OperationOp):
                        visit(parent)
        root = rw.root.owner
        if isinstance(root, pdl.OperationOp):
            visit(root)
    return str(module), n


def classify(text, a, b, limit=10000):
    """A and B disagree on `text`.  Returns (list of mechanism keys, details).  Known keys are assigned only when
    the disagreement disappears under the executable models of the known wrong behaviours (smallest set first):
      * FALSY  (path B): path A re-run on the pattern whose python-falsy constant attribute constraints are removed;
      * REPRES (path B): path A re-run on the pattern whose repeated `pdl.result` operand uses are decoupled;
      * RESIDX (path A): path A re-run with the result-index guard (intended behaviour of PDLMatcher.match_result),
        only when the run had at least one accepted wrong-index match.
    Anything else gets a generic key describing the observable difference."""
    ob = outcome(b)
    det = {"wrong_index_matches_in_A": a.get("result_index_mismatch", 0)}
    t_f, n_f = relax_falsy_constants(text)
    t_r, n_r = relax_repeated_results(text)
    det["falsy_constants_in_match"] = n_f
    det["repeated_result_operand_uses"] = n_r
    variants = [((), text)]
    if n_f:
        variants.append(((FALSY_KEY,), t_f))
    if n_r:
        variants.append(((REPRES_KEY,), t_r))
    if n_f and n_r:
        variants.append(((FALSY_KEY, REPRES_KEY), relax_repeated_results(t_f)[0]))
    for keys, t in variants:
        at = a if not keys else run_a(t, limit)
        if keys and outcome(at) == ob:
            return list(keys), det
        if at.get("result_index_mismatch", 0) > 0:
            if outcome(run_a(t, limit, guard_result_index=True)) == ob:
                return list(keys) + [RESIDX_KEY], det
    sa, sb = a["status"], b["status"]
    if sa == "ok" and sb == "diverged":
        return ["termination:compiled-path-diverges"], det
    if sa == "diverged" and sb == "ok":
        return ["termination:direct-path-diverges"], det
    if a["actions"] == 0 and b["actions"] > 0:
        return ["matcher:compiled-accepts-what-direct-rejects"], det
    if a["actions"] > 0 and b["actions"] == 0:
        return ["matcher:compiled-rejects-what-direct-accepts"], det
    if a["actions"] != b["actions"]:
        return ["matcher:different-number-of-rewrites"], det
    return ["rewrite:results-differ"], det
