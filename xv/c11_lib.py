"""C11 library: IR generator, terminating pattern library, perturbed worklist, monitoring pattern wrapper and the
offline oracle over per-invocation records (before snapshot, after snapshot, listener events, flag).

Two oracle layers, both independent of the driver / applier / rewriter / worklist / listener plumbing (all real):
 A. API trace specification: every rewriter call made by a library pattern goes through `Act`, which computes from the
    state *before* the call which notifications the call owes to the registered user listener (inserted ops, removed
    op, replaced op, every user whose operand is about to change, created block) and compares with the events the
    user listener actually received during the call; the action flag must be set after a mutating call.
 B. Invocation snapshot diff: identity snapshots (strong references, ancestor chains computed before the call) and
    xv.canon forms before / after each pattern invocation are compared with the listener events of that invocation
    (covers the applier's own DCE / folding and anything not routed through `Act`).
Driver level: stale invocations, return value, fixpoint by re-application, divergence cap, irsan walk of the result."""
from __future__ import annotations

import collections
import random
import re

from xdsl.builder import ImplicitBuilder
from xdsl.context import Context
from xdsl.dialects import arith
from xdsl.dialects.builtin import Builtin, IntAttr, IntegerAttr, ModuleOp, StringAttr, i32, i64
from xdsl.dialects.test import Test, TestOp, TestPureOp
from xdsl.ir import Block, BlockArgument, Operation, OpResult, Region
from xdsl.pattern_rewriter import (GreedyRewritePatternApplier, PatternRewriter, PatternRewriterListener,
                                   PatternRewriteWalker, RewritePattern)
from xdsl.rewriter import BlockInsertPoint, InsertPoint
from xdsl.utils.worklist import Worklist

import xv.canon as _canon
from xv.canon import canon_ir
from xv.harness import shash
from xv.irsan import Broken, check_tree

# Attributes are immutable: memoise the canonical form by object identity (strong reference kept, so the id cannot be
# recycled) for this worker process only; cleared per case. canon_ir looks canon_attr up in its module globals.
_orig_canon_attr = _canon.canon_attr
_memo: dict[int, tuple] = {}


def canon_attr(a):
    e = _memo.get(id(a))
    if e is not None and e[0] is a:
        return e[1]
    r = _orig_canon_attr(a)
    _memo[id(a)] = (a, r)
    return r


_canon.canon_attr = canon_attr


# ------------------------------------------------------------------------------------------------ IR helpers
def kind(op):
    a = op.attributes.get("k")
    return a.data if isinstance(a, StringAttr) else None


def level(op):
    a = op.attributes.get("lvl")
    return a.data if isinstance(a, IntAttr) else 0


def mk(k, operands=(), nres=1, lvl=0, regions=(), pure=False):
    cls = TestPureOp if pure else TestOp
    return cls.create(operands=list(operands), result_types=[i32] * nres,
                      attributes={"k": StringAttr(k), "lvl": IntAttr(lvl)}, regions=list(regions))


def unused(op):
    return all(r.first_use is None for r in op.results)


def set_level(op, n):
    op.attributes["lvl"] = IntAttr(n)


# ------------------------------------------------------------------------------------------------ snapshots
class OpSnap:
    __slots__ = ("op", "operands", "results", "rtypes", "anc", "block")

    def __init__(self, op, anc, block):
        self.op = op
        self.operands = tuple(op.operands)          # strong references
        self.results = tuple(op.results)
        self.rtypes = tuple(canon_attr(r.type) for r in op.results)
        self.anc = anc                               # ancestor ops (innermost first), computed now
        self.block = block


class Snap:
    """Identity snapshot of everything below a region. Holds strong references: ids cannot be recycled while a
    snapshot is alive."""

    def __init__(self, region):
        self.ops: dict[int, OpSnap] = {}
        self.blocks: dict[int, tuple] = {}
        ident = []
        self._walk(region, (), ident)
        self.ident = tuple(ident)

    def _walk(self, region, anc, ident):
        b = region._first_block  # raw links, not the walk() used by the driver
        while b is not None:
            args = tuple(b._args)
            self.blocks[id(b)] = (b, args)
            ident.append(("B", id(b), tuple(id(a) for a in args)))
            op = b._first_op
            while op is not None:
                s = OpSnap(op, anc, b)
                self.ops[id(op)] = s
                ident.append((id(op), tuple(id(v) for v in s.operands), tuple(id(r) for r in s.results)))
                if op.regions:
                    anc2 = (op,) + anc
                    for r in op.regions:
                        ident.append("R")
                        self._walk(r, anc2, ident)
                    ident.append("E")
                op = op._next_op
            b = b._next_block


def attached_under(op, region):
    n = op
    steps = 0
    while n is not None and steps < 10000:
        if n is region:
            return True
        n = n.parent
        steps += 1
    return False


# ------------------------------------------------------------------------------------------------ case state
DRIVER_FILES = ("xdsl/pattern_rewriter.py", "xdsl/utils/worklist.py", "xdsl/rewriter.py", "xdsl/builder.py")


class Diverged(Exception):
    pass


class Case:
    def __init__(self, seed, size):
        self.seed, self.size = seed, size
        self.events: list[tuple] = []       # (kind, object, extra) received by the USER listener
        self.removed: dict[int, Operation] = {}   # ops covered by a removal notification (strong refs)
        self.keep: list = []                # strong references to everything ever keyed by id()
        self.num: dict[int, int] = {}       # stable per-case numbering of ops (pop order hashing)
        self.violations: list[dict] = []
        self.stats = collections.Counter()
        self.calls: list[dict] = []         # Act records of the current invocation
        self.explained: set = set()         # (kind, id) misses already reported by layer A in this invocation
        self.monitoring = False
        self.acted: set[str] = set()
        self.cap = 0
        self.diverged = False
        self.module = None
        self.region = None
        self.cfg = None
        self.keep_by_id: dict[int, object] = {}
        self.acted_all: set[str] = set()
        self.mutation_kinds: list[str] = []
        self.current_pattern = "<applier>"
        self.api_calls = 0
        self.flag_explained = False
        self.hook_reported_change = 0
        self.inv_mutated = False
        self.hook_untruthful = 0

    def number(self, op):
        i = id(op)
        if i not in self.num or self.keep_by_id.get(i) is not op:
            self.num[i] = len(self.keep)
            self.keep.append(op)
            self.keep_by_id[i] = op
        return self.num[i]

    def violate(self, key, summary, detail=None):
        self.stats["violations"] += 1
        if sum(1 for v in self.violations if v["key"] == key) < 2:
            self.violations.append({"key": key, "summary": summary, "detail": detail or {}})


def describe(op):
    if op is None:
        return "None"
    return f"{op.name}[k={kind(op)},lvl={level(op)},nres={len(op.results)},nopnd={len(op.operands)}]"


# ------------------------------------------------------------------------------------------------ layer A
class Act:
    """Every rewriter call of the pattern library goes through here: notifications owed are computed from the state
    before the call and compared with what the registered user listener received during the call."""

    def __init__(self, case: Case):
        self.c = case

    def _run(self, api, rw, expected, call, mutating=True):
        c = self.c
        c.stats["api:" + api] += 1
        c.api_calls += 1
        c.acted.add(api)
        if not c.monitoring:
            return call()
        e0 = len(c.events)
        c.keep.extend(o for _k, o, _r in expected)
        out = call()
        ev = c.events[e0:]
        got = collections.Counter((k, id(o)) for k, o, _x in ev)
        c.calls.append({"api": api, "n_events": len(ev)})
        c.stats["api_events_expected"] += len(expected)
        if mutating and not rw.has_done_action:
            c.flag_explained = True
            c.violate(f"{api}:flag-not-set", f"rewriter.{api} changed IR but has_done_action is False afterwards",
                      {"api": api})
        elif c.inv_mutated and not rw.has_done_action:
            # an earlier rewriter call of this match mutated the IR and had set the flag: this call assigned it away
            c.flag_explained = True
            c.violate(f"{api}:flag-cleared", f"rewriter.{api} (a call that changes nothing) reset has_done_action to False "
                      f"after earlier rewriter calls of the same match ({sorted(c.acted)}) had mutated the IR", {"api": api})
        if mutating:
            c.inv_mutated = True
        seen = set()
        for k, o, role in expected:
            if (k, id(o)) in got:
                c.stats["api_events_matched"] += 1
                continue
            c.explained.add((k, id(o)))
            if (role, k) in seen:
                continue
            seen.add((role, k))
            c.violate(f"{api}:{role}-not-notified",
                      f"rewriter.{api}: {role} {describe(o) if isinstance(o, Operation) else type(o).__name__} got no "
                      f"'{k}' notification on the registered listener",
                      {"api": api, "role": role, "event_kind": k, "events_during_call": [e[0] for e in ev]})
        return out

    def insert(self, rw, ops, ip=None):
        lst = [ops] if isinstance(ops, Operation) else list(ops)
        exp = [("ins", o, "inserted-op") for o in lst]
        return self._run("insert", rw, exp, lambda: rw.insert(ops, ip) if ip is not None else rw.insert(ops))

    def erase(self, rw, op, safe_erase=True):
        return self._run("erase", rw, [("rem", op, "erased-op")], lambda: rw.erase(op, safe_erase=safe_erase))

    def replace(self, rw, op, new_ops, new_results=None, safe_erase=True):
        lst = [new_ops] if isinstance(new_ops, Operation) else list(new_ops)
        nr = new_results if new_results is not None else (list(lst[-1].results) if lst else [])
        exp = [("ins", o, "new-op") for o in lst] + [("rep", op, "replaced-op"), ("rem", op, "replaced-op")]
        for old, new in zip(op.results, nr):
            if old is not new:
                exp += [("mod", u.operation, "result-users") for u in list(old.uses)]
        e0 = len(self.c.events)
        out = self._run("replace", rw, exp, lambda: rw.replace(op, new_ops, new_results, safe_erase=safe_erase))
        if self.c.monitoring:
            # ordering: the replacement notification must precede the removal of the same op, and carry the values
            ks = [(k, id(o)) for k, o, _x in self.c.events[e0:]]
            if ("rep", id(op)) in ks and ("rem", id(op)) in ks and ks.index(("rep", id(op))) > ks.index(("rem", id(op))):
                self.c.violate("replace:replacement-notified-after-removal", "replacement handler called after removal")
            for k, o, x in self.c.events[e0:]:
                if k == "rep" and o is op and (len(x) != len(nr) or any(a is not b for a, b in zip(x, nr))):
                    self.c.violate("replace:replacement-notified-with-wrong-values",
                                   "replacement handler received other new_results than the ones passed")
        return out

    def rauw(self, rw, a, b, safe_erase=True):
        exp = [] if a is b else [("mod", u.operation, "users") for u in list(a.uses)]
        return self._run("replace_all_uses_with", rw, exp, lambda: rw.replace_all_uses_with(a, b, safe_erase=safe_erase),
                         mutating=bool(exp))

    def ruwi(self, rw, a, b, pred):
        exp = [] if a is b else [("mod", u.operation, "users") for u in list(a.uses) if pred(u)]
        return self._run("replace_uses_with_if", rw, exp, lambda: rw.replace_uses_with_if(a, b, pred), mutating=bool(exp))

    def retype(self, rw, val, ty):
        exp = []
        if isinstance(val, OpResult):
            exp.append(("mod", val.op, "owner"))
        elif isinstance(val, BlockArgument) and val.block.parent_op() is not None:
            exp.append(("mod", val.block.parent_op(), "owner"))
        exp += [("mod", u.operation, "users") for u in list(val.uses)]
        return self._run("replace_value_with_new_type", rw, exp, lambda: rw.replace_value_with_new_type(val, ty))

    def insert_block_argument(self, rw, block, idx, ty):
        return self._run("insert_block_argument", rw, [], lambda: rw.insert_block_argument(block, idx, ty))

    def erase_block_argument(self, rw, arg, safe_erase=True):
        exp = [("mod", u.operation, "arg-users") for u in list(arg.uses)]
        return self._run("erase_block_argument", rw, exp, lambda: rw.erase_block_argument(arg, safe_erase))

    def inline_block(self, rw, block, ip, arg_values=()):
        exp = []
        for a, v in zip(block.args, arg_values):
            if a is not v:
                exp += [("mod", u.operation, "arg-users") for u in list(a.uses)]
        if not attached_under(block, self.c.region):
            exp += [("ins", o, "moved-in-op") for o in block.ops]
        return self._run("inline_block", rw, exp, lambda: rw.inline_block(block, ip, arg_values))

    def inline_region(self, rw, region, bip):
        return self._run("inline_region", rw, [], lambda: rw.inline_region(region, bip))

    def move_region(self, rw, region):
        return self._run("move_region_contents_to_new_regions", rw, [],
                         lambda: rw.move_region_contents_to_new_regions(region))

    def create_block(self, rw, bip, arg_types=()):
        c = self.c
        e0 = len(c.events)
        blk = self._run("create_block", rw, [], lambda: rw.create_block(bip, arg_types))
        if c.monitoring:
            if not any(k == "blk" and o is blk for k, o, _x in c.events[e0:]):
                c.violate("create_block:created-block-not-notified", "block creation handler was not called")
        return blk

    def implicit(self, rw, build):
        """Ops constructed under `ImplicitBuilder(rewriter)`: each one is an insertion made through the rewriter (owes an
        insertion notification and the action flag). `build` constructs the ops and returns them."""
        c = self.c
        api = "implicit_builder_insert"
        c.stats["api:" + api] += 1
        c.api_calls += 1
        c.acted.add(api)
        e0 = len(c.events)
        with ImplicitBuilder(rw):
            ops = build()
        if not c.monitoring:
            return ops
        c.keep.extend(ops)
        got = {(k, id(o)) for k, o, _x in c.events[e0:]}
        c.calls.append({"api": api, "n_events": len(c.events) - e0})
        c.stats["api_events_expected"] += len(ops)
        if not rw.has_done_action:
            c.flag_explained = True
            c.violate(f"{api}:flag-not-set", "ops constructed under ImplicitBuilder(rewriter) were inserted into the IR but "
                      "rewriter.has_done_action is False afterwards", {"api": api})
        c.inv_mutated = True
        for o in ops:
            if ("ins", id(o)) in got:
                c.stats["api_events_matched"] += 1
            else:
                c.explained.add(("ins", id(o)))
                c.violate(f"{api}:inserted-op-not-notified", f"{describe(o)} constructed under ImplicitBuilder(rewriter) "
                          "got no insertion notification on the registered listener", {"api": api})
        return ops

    def noop_call(self, rw, api, call):
        """A rewriter call that changes nothing and owes no notification (must leave the action flag alone)."""
        return self._run(api, rw, [], call, mutating=False)

    def notify(self, rw, op):
        return self._run("notify_op_modified", rw, [("mod", op, "op")], lambda: rw.notify_op_modified(op))


# ------------------------------------------------------------------------------------------------ pattern library
# Termination: lexicographic measure (multiset of ranks of all ops [rank = lvl, 'c'/foldable arith = 1], uses of
# u.res1, even-index uses of w.res1, i32-typed t.res0 / tb block args, block args below g/gx ops, blocks below cbo
# ops): every rewrite either removes an op, replaces one by ops of lower rank or lowers a rank in place (first
# component, Dershowitz-Manna), or leaves it unchanged and strictly decreases one of the later counters.
class P(RewritePattern):
    def __init__(self, case):
        self.c = case
        self.A = Act(case)

    def match_and_rewrite(self, op, rw):  # pragma: no cover
        raise NotImplementedError


class EraseDead(P):
    def match_and_rewrite(self, op, rw):
        if kind(op) == "dead" and unused(op):
            self.A.erase(rw, op)


class Lower(P):
    def match_and_rewrite(self, op, rw):
        if kind(op) == "a" and level(op) > 0:
            self.A.replace(rw, op, mk("a", op.operands, len(op.results), level(op) - 1))


class LowerTwo(P):
    def match_and_rewrite(self, op, rw):
        if kind(op) == "b" and level(op) > 0 and len(op.results) == 1:
            h = mk("dead" if level(op) % 2 else "a", (), 1, 0)
            n = mk("b", list(op.operands) + [h.results[0]], 1, level(op) - 1)
            self.A.replace(rw, op, [h, n])


class Forward(P):
    def match_and_rewrite(self, op, rw):
        if kind(op) == "id" and len(op.operands) == 1 and len(op.results) == 1:
            self.A.replace(rw, op, [], [op.operands[0]])


class FoldIfOperandLow(P):
    def match_and_rewrite(self, op, rw):
        if (kind(op) == "c" and op.operands and isinstance(o := op.operands[0].owner, Operation)
                and kind(o) == "a" and level(o) == 0):
            self.A.replace(rw, op, mk("a", op.operands[1:], len(op.results), 0))


class ModifyInPlace(P):
    def match_and_rewrite(self, op, rw):
        if kind(op) == "m" and level(op) > 0:
            set_level(op, level(op) - 1)
            self.A.notify(rw, op)


class InsertOnce(P):
    def match_and_rewrite(self, op, rw):
        if kind(op) == "i" and level(op) > 0:
            h = mk("dead", (), 1, 0)
            n = level(op) % 3
            if n == 0:
                self.A.insert(rw, h)  # default insertion point of the rewriter (before the matched op)
            else:
                self.A.insert(rw, h, InsertPoint.before(op) if n == 1 else InsertPoint.after(op))
            set_level(op, level(op) - 1)
            self.A.notify(rw, op)


class InlineRegion(P):
    def match_and_rewrite(self, op, rw):
        if kind(op) == "r" and len(op.regions) == 1 and len(op.regions[0].blocks) == 1 and unused(op):
            blk = op.regions[0].blocks[0]
            if len(op.operands) < len(blk.args):
                return
            self.A.inline_block(rw, blk, InsertPoint.before(op), list(op.operands[: len(blk.args)]))
            self.A.erase(rw, op)


class DropBlockArg(P):
    def match_and_rewrite(self, op, rw):
        if kind(op) == "g":
            for reg in op.regions:
                for b in reg.blocks:
                    for a in reversed(b.args):
                        if a.first_use is None:
                            self.A.erase_block_argument(rw, a)
                            return


class DropBlockArgUnsafe(P):
    def match_and_rewrite(self, op, rw):
        if kind(op) == "gx":
            for reg in op.regions:
                for b in reg.blocks:
                    if b.args:
                        self.A.erase_block_argument(rw, b.args[-1], safe_erase=False)
                        return


class RauwOperand(P):
    def match_and_rewrite(self, op, rw):
        if kind(op) == "u" and len(op.results) == 2 and op.results[1].first_use is not None:
            self.A.rauw(rw, op.results[1], op.results[0])


def _even_use(use):
    return use.index % 2 == 0


class ReplaceUsesIf(P):
    def match_and_rewrite(self, op, rw):
        if kind(op) == "w" and len(op.results) == 2 and any(_even_use(u) for u in op.results[1].uses):
            self.A.ruwi(rw, op.results[1], op.results[0], _even_use)


class RetypeResult(P):
    def match_and_rewrite(self, op, rw):
        if kind(op) == "t" and op.results and op.results[0].type == i32:
            self.A.retype(rw, op.results[0], i64)


class RetypeBlockArg(P):
    def match_and_rewrite(self, op, rw):
        if kind(op) == "tb":
            for reg in op.regions:
                for b in reg.blocks:
                    for a in b.args:
                        if a.type == i32:
                            self.A.retype(rw, a, i64)
                            return


class InlineRegionBlocks(P):
    def match_and_rewrite(self, op, rw):
        if (kind(op) == "ir" and op.regions and unused(op) and op.parent_op() is not None
                and not isinstance(op.parent_op(), ModuleOp)):
            self.A.inline_region(rw, op.regions[0], BlockInsertPoint.after(op.parent_block()))
            self.A.erase(rw, op)


class MoveRegion(P):
    def match_and_rewrite(self, op, rw):
        if kind(op) == "mv" and level(op) > 0 and op.regions:
            regs = [self.A.move_region(rw, r) for r in op.regions]
            self.A.replace(rw, op, mk("mv", op.operands, len(op.results), level(op) - 1, regs))


class MultiReplaceNone(P):
    def match_and_rewrite(self, op, rw):
        if kind(op) == "n" and level(op) > 0 and len(op.results) == 2 and op.results[1].first_use is None:
            h = mk("dead", (), 1, 0)
            n2 = mk("a", op.operands, 1, level(op) - 1)
            self.A.replace(rw, op, [h, n2], [n2.results[0], None])


class InsertBlockArg(P):
    def match_and_rewrite(self, op, rw):
        if kind(op) == "ga" and level(op) > 0 and op.regions and op.regions[0].blocks:
            b = op.regions[0].blocks[0]
            self.A.insert_block_argument(rw, b, level(op) % (len(b.args) + 1), i32)
            set_level(op, level(op) - 1)
            self.A.notify(rw, op)


class UnsafeEraseChain(P):
    def match_and_rewrite(self, op, rw):
        if kind(op) != "ue" or not op.results or op.regions:
            return
        users = []
        for r in op.results:
            for u in r.uses:
                if u.operation not in users:
                    users.append(u.operation)
        if not users or not all(kind(x) == "uu" and unused(x) and not x.regions for x in users):
            return
        self.A.erase(rw, op, safe_erase=False)
        for x in users:
            self.A.erase(rw, x)


class CreateBlock(P):
    def match_and_rewrite(self, op, rw):
        if kind(op) == "cb" and level(op) > 0 and op.regions:
            self.A.create_block(rw, BlockInsertPoint.at_end(op.regions[0]), [i32])
            self.A.insert(rw, mk("dead", (), 1, 0))  # insertion point is now the end of the new block
            set_level(op, level(op) - 1)
            self.A.notify(rw, op)


class CreateBlockOnly(P):
    """The whole rewrite is one create_block call (a second block for a single-block region)."""

    def match_and_rewrite(self, op, rw):
        if kind(op) == "cbo" and op.regions and len(op.regions[0].blocks) == 1:
            self.A.create_block(rw, BlockInsertPoint.at_end(op.regions[0]), [i32])


class InlineDetachedBlock(P):
    def match_and_rewrite(self, op, rw):
        if kind(op) == "ib" and level(op) > 0:
            h1 = mk("dead", (), 1, 0)
            h2 = mk("a", [h1.results[0]], 1, 0)
            self.A.inline_block(rw, Block([h1, h2]), InsertPoint.before(op))
            set_level(op, level(op) - 1)
            self.A.notify(rw, op)


TAILS = ["inline_empty_detached_block", "insert_nothing", "rauw_of_unused_value", "block_argument_round_trip",
         "replace_uses_with_if_never", "rauw_same_value", "notify_then_inline_empty"]


class TailNoop(P):
    """Several rewriter calls in one match: a real mutation (replace by a lower level op) followed by a last call that
    changes nothing. Any rewriter method that assigns (rather than sets) has_done_action is exposed."""

    def match_and_rewrite(self, op, rw):
        if kind(op) != "tn" or level(op) <= 0:
            return
        A = self.A
        tail = TAILS[(level(op) + 2 * len(op.results) + 3 * len(op.operands)) % len(TAILS)]
        if tail == "notify_then_inline_empty":
            # in-place modification as the real mutation
            set_level(op, level(op) - 1)
            A.notify(rw, op)
            A.noop_call(rw, "inline_block", lambda: rw.inline_block(Block(), InsertPoint.before(op)))
            self.c.stats["tail:" + tail] += self.c.monitoring
            return
        new = mk("tn", op.operands, len(op.results), level(op) - 1, [Region(Block())])
        A.replace(rw, op, new)
        if tail == "inline_empty_detached_block":
            A.noop_call(rw, "inline_block", lambda: rw.inline_block(Block(), InsertPoint.before(new)))
        elif tail == "insert_nothing":
            A.noop_call(rw, "insert", lambda: rw.insert([], InsertPoint.before(new)))
        elif tail == "rauw_of_unused_value":
            spare = new.regions[0].blocks[0].insert_arg(i32, 0)  # never used
            A.noop_call(rw, "replace_all_uses_with", lambda: rw.replace_all_uses_with(spare, spare.block.args[0]))
            other = mk("x", (), 1, 0)  # detached, unused result
            A.noop_call(rw, "replace_all_uses_with", lambda: rw.replace_all_uses_with(other.results[0], spare))
        elif tail == "block_argument_round_trip":
            b = new.regions[0].blocks[0]
            a = A.insert_block_argument(rw, b, 0, i32)
            A.erase_block_argument(rw, a)
        elif tail == "replace_uses_with_if_never":
            if new.results:
                v = new.results[0]
                spare = new.regions[0].blocks[0].insert_arg(i32, 0)
                A.noop_call(rw, "replace_uses_with_if", lambda: rw.replace_uses_with_if(v, spare, lambda u: False))
            else:
                A.noop_call(rw, "insert", lambda: rw.insert(()))
        elif tail == "rauw_same_value":
            if new.results:
                v = new.results[0]
                A.noop_call(rw, "replace_all_uses_with", lambda: rw.replace_all_uses_with(v, v))
                A.noop_call(rw, "replace_uses_with_if", lambda: rw.replace_uses_with_if(v, v, lambda u: True))
            else:
                A.noop_call(rw, "inline_block", lambda: rw.inline_block(Block(), InsertPoint.after(new)))
        self.c.stats["tail:" + tail] += self.c.monitoring


def _ctor(k, operands=(), nres=1, lvl=0):
    # the constructor (not .create): runs Operation.__post_init__, which is what the implicit builder hooks
    return TestOp(operands=list(operands), result_types=[i32] * nres,
                  attributes={"k": StringAttr(k), "lvl": IntAttr(lvl)})


class ImplicitInsertOnly(P):
    """Insert-only match: the single action is an op constructed under ImplicitBuilder(rewriter) (a marker placed right
    before the matched op; matches only while the previous op is not such a marker)."""

    def match_and_rewrite(self, op, rw):
        if kind(op) == "ii" and (op.prev_op is None or kind(op.prev_op) != "iim"):
            self.A.implicit(rw, lambda: [_ctor("iim", (), 0, 0)])


class ImplicitLower(P):
    """Level-bounded: two ops built under the implicit builder (one using the other), then in-place decrement."""

    def match_and_rewrite(self, op, rw):
        if kind(op) == "il" and level(op) > 0:
            def build():
                h = _ctor("dead", (), 1, 0)
                return [h, _ctor("a", [h.results[0]], 1, 0)]
            self.A.implicit(rw, build)
            set_level(op, level(op) - 1)
            self.A.notify(rw, op)


class NameHintInsert(P):
    """Inserts with rewriter.name_hint set: a zero-result op, an op whose result already carries a hint, and (odd levels)
    an unnamed one; every one of them owes an insertion notification."""

    def match_and_rewrite(self, op, rw):
        if kind(op) == "nh" and level(op) > 0:
            rw.name_hint = "hinted"
            z = mk("dead", (), 0, 0)
            named = mk("a", (), 1, 0)
            named.results[0].name_hint = "already"
            ops = [z, named] + ([mk("dead", (), 1, 0)] if level(op) % 2 else [])
            if level(op) % 3 == 0:
                for o in ops:
                    self.A.insert(rw, o)
            else:
                self.A.insert(rw, ops, InsertPoint.before(op))
            rw.name_hint = None
            set_level(op, level(op) - 1)
            self.A.notify(rw, op)


class EraseNext(P):
    def match_and_rewrite(self, op, rw):
        if kind(op) == "eo" and (n := op.next_op) is not None and kind(n) in ("dead", "x") and unused(n):
            self.A.erase(rw, n)


class EraseParent(P):
    def match_and_rewrite(self, op, rw):
        if kind(op) == "ep" and (p := op.parent_op()) is not None and kind(p) in ("x", "dead") and unused(p):
            self.A.erase(rw, p)


class LowerDef(P):
    def match_and_rewrite(self, op, rw):
        if (kind(op) == "ld" and op.operands and isinstance(o := op.operands[0].owner, Operation)
                and kind(o) == "a" and level(o) > 0):
            self.A.replace(rw, o, mk("a", o.operands, len(o.results), level(o) - 1))


PATTERNS = [EraseDead, Lower, LowerTwo, Forward, FoldIfOperandLow, ModifyInPlace, InsertOnce, InlineRegion,
            DropBlockArg, DropBlockArgUnsafe, RauwOperand, ReplaceUsesIf, RetypeResult, RetypeBlockArg,
            InlineRegionBlocks, MoveRegion, MultiReplaceNone, InsertBlockArg, UnsafeEraseChain, CreateBlock,
            InlineDetachedBlock, EraseNext, EraseParent, LowerDef, CreateBlockOnly, TailNoop,
            ImplicitInsertOnly, ImplicitLower, NameHintInsert]
PATTERN_BY_NAME = {p.__name__: p for p in PATTERNS}
KIND_OF = {"EraseDead": "dead", "Lower": "a", "LowerTwo": "b", "Forward": "id", "FoldIfOperandLow": "c",
           "ModifyInPlace": "m", "InsertOnce": "i", "InlineRegion": "r", "DropBlockArg": "g", "DropBlockArgUnsafe": "gx",
           "RauwOperand": "u", "ReplaceUsesIf": "w", "RetypeResult": "t", "RetypeBlockArg": "tb",
           "InlineRegionBlocks": "ir", "MoveRegion": "mv", "MultiReplaceNone": "n", "InsertBlockArg": "ga",
           "UnsafeEraseChain": "ue", "CreateBlock": "cb", "InlineDetachedBlock": "ib", "EraseNext": "eo",
           "EraseParent": "ep", "LowerDef": "ld", "CreateBlockOnly": "cbo", "TailNoop": "tn",
           "ImplicitInsertOnly": "ii", "ImplicitLower": "il", "NameHintInsert": "nh"}
REGION_KINDS = ("r", "g", "gx", "tb", "ir", "mv", "ga", "cb", "cbo")
INERT = ["x", "x", "p"]


# ------------------------------------------------------------------------------------------------ generator
def gen_block(rng, depth, outer_vals, nops, kinds, maxdepth, with_arith, multi_p=0.0):
    b = Block(arg_types=[i32] * (rng.choice([0, 0, 1, 2, 3]) if depth else 0))
    vals = list(outer_vals) + list(b.args)
    for _ in range(nops):
        if with_arith and rng.random() < 0.18:
            if rng.random() < 0.45 or len(vals) < 1:
                op = arith.ConstantOp(IntegerAttr(rng.choice([0, 0, 1, 1, 2, 3, -1]), i32))
            else:
                cls = rng.choice([arith.AddiOp, arith.MuliOp, arith.SubiOp, arith.AndIOp, arith.OrIOp, arith.XOrIOp])
                consts = [v for v in vals if isinstance(v.owner, arith.ConstantOp)]
                pick = lambda: rng.choice(consts) if consts and rng.random() < 0.7 else rng.choice(vals)  # noqa: E731
                op = cls.create(operands=[pick(), pick()], result_types=[i32])
            b.add_op(op)
            vals.extend(op.results)
            continue
        k = rng.choice(kinds)
        nopnd = rng.choice([0, 1, 1, 2, 3]) if vals else 0
        opnds = [rng.choice(vals) for _ in range(nopnd)]
        if k in ("c", "ld") and rng.random() < 0.8:
            # these depend on the op defining operand 0 ("a" at level 0 resp. > 0): make that shape likely
            adefs = [v for v in vals if isinstance(v.owner, Operation) and kind(v.owner) == "a"]
            if adefs:
                opnds = [rng.choice(adefs)] + opnds[1:]
        regions = []
        if (k in REGION_KINDS or rng.random() < (0.5 if k == "x" else 0.15)) and depth < maxdepth:
            nblocks = 2 if ((k in ("ir", "mv", "cb", "x") and rng.random() < 0.3) or rng.random() < multi_p) else 1
            regions = [Region([gen_block(rng, depth + 1, vals, rng.choice([0, 1, 2, 4]), kinds, maxdepth, with_arith,
                                         multi_p)
                               for _ in range(nblocks)])]
        nres = 2 if k in ("u", "w", "n") else rng.choice([0, 1, 1, 2])
        if k in ("r", "ir") or (k == "x" and regions and rng.random() < 0.6):
            nres = 0
        if k == "x" and regions and rng.random() < 0.6:
            regions[0].blocks[0].add_op(mk("ep", (), 0, 0))
        if k == "ue":
            nres = rng.choice([1, 2])
        if k == "id":
            opnds = opnds[:1] or ([rng.choice(vals)] if vals else [])
            nres = 1
        op = mk(k, opnds, nres, rng.choice([0, 0, 1, 2, 3]), regions, pure=(k == "p"))
        b.add_op(op)
        if k == "eo" and rng.random() < 0.7:
            b.add_op(mk(rng.choice(["dead", "x"]), (), rng.choice([0, 1]), 0))
        if k == "ue":
            for _u in range(rng.choice([1, 1, 2])):
                b.add_op(mk("uu", [rng.choice(op.results) for _ in range(rng.choice([1, 2]))], 0, 0))
            if rng.random() < 0.8:
                continue  # keep the results private to the uu users most of the time
        vals.extend(op.results)
    return b


WALK_CFGS = [dict(walk_reverse=a, walk_regions_first=b, apply_recursively=c)
             for a in (False, True) for b in (False, True) for c in (True, False)]
MODES = ["bare", "applier", "applier+dce", "applier+fold", "applier+dce+fold"]
PERTURB = [0.0, 0.3, 1.0]
# post_walk_func configurations: none / the region DCE canonicalize uses / a mutating test hook that erases unused "hd"
# ops through the listener it is handed and reports True / a hook that does nothing and reports False.
HOOKS = ["none", "region_dce", "erase_marked", "noop"]
HOOK_OF = ["none"] * 4 + ["region_dce"] * 3 + ["erase_marked"] * 2 + ["noop"] * 2   # indexed by seed % 11 (coprime to 120)
SIZES = {"quick": dict(nops=[3, 6, 10, 16], maxdepth=2), "thorough": dict(nops=[4, 8, 14, 22, 30], maxdepth=3)}


def gen_case(seed, size):
    """Deterministic in (seed, size): returns module, pattern names, cfg."""
    rng = random.Random(seed)
    k = seed % 120
    cfg = dict(WALK_CFGS[k % 8])
    cfg["mode"] = MODES[(k // 8) % 5]
    cfg["perturb"] = PERTURB[(k // 40) % 3]
    cfg["hook"] = hook = HOOK_OF[seed % 11]
    sz = SIZES[size]
    if cfg["mode"] == "bare":
        names = [rng.choice(PATTERNS).__name__]
    else:
        names = [p.__name__ for p in rng.sample(PATTERNS, rng.randint(2, len(PATTERNS)))]
    if hook == "region_dce":
        # region DCE deletes the empty unreachable block CreateBlockOnly creates, which re-enables the pattern: the
        # combination would not terminate (CreateBlock is level-bounded and stays)
        names = [n for n in names if n != "CreateBlockOnly"] or ["EraseDead"]
    hrng = random.Random(seed * 31 + 7)
    if hook != "none" and hrng.random() < 0.45:
        names = []  # no pattern ever fires: every IR change of the run is made by the post-walk hook
    elif hook in ("region_dce", "erase_marked") and hrng.random() < 0.3:
        # only EraseDead, and (below) no "dead" op other than one whose single user only the hook removes: the first
        # sweep fires nothing, the hook enables the pattern, the driver has to sweep again
        names = ["EraseDead"]
    cfg["inert_patterns"] = not names
    # bias the op kinds towards the chosen patterns so that they find work
    kinds = [KIND_OF[n] for n in names] * 3 + list(KIND_OF.values()) + INERT + ["dead", "a", "a", "uu"]
    if names == ["EraseDead"] and hook != "none":
        kinds = [x for x in kinds if x != "dead"]
        cfg["hook_enables_pattern"] = True
    if hook == "erase_marked":
        kinds += ["hd"] * 4
    if hook == "region_dce":
        kinds += ["p"] * 4
    with_arith = "fold" in cfg["mode"] or rng.random() < 0.3
    body = gen_block(rng, 0, [], rng.choice(sz["nops"]), kinds, sz["maxdepth"], with_arith,
                     multi_p=0.4 if hook == "region_dce" else 0.0)
    ops = list(body.ops)
    for o in ops:
        o.detach()
    if hook == "region_dce" and (hrng.random() < 0.7 or names == ["EraseDead"]):
        # work only region DCE can do: an unreachable block holding side-effecting ops, and an unused pure op
        ops.append(mk("x", (), 0, 0, [Region([Block([mk("x", (), 0, 0)]), Block([mk("x", (), 1, 0), mk("x", (), 0, 0)])])]))
        ops.append(mk("p", (), 1, 0, pure=True))
        d = mk("dead", (), 1, 0)   # becomes erasable by EraseDead only after the hook removed its pure user
        ops += [d, mk("p", [d.results[0]], 1, 0, pure=True)]
    if hook == "erase_marked" and (hrng.random() < 0.7 or names == ["EraseDead"]):
        ops.append(mk("x", (), 0, 0, [Region([Block([mk("hd", (), 1, 0)])])]))
        ops.append(mk("hd", (), 2, 0))
        d = mk("dead", (), 1, 0)   # becomes erasable by EraseDead only after the hook removed its marked user
        ops += [d, mk("hd", [d.results[0]], 1, 0)]
    module = ModuleOp(ops)
    return module, names, cfg, random.Random(seed * 7919 + 13)


# ------------------------------------------------------------------------------------------------ perturbed worklist
class PerturbedWorklist(Worklist):
    """Same abstract duplicate-free set/stack interface (checked by C12), but pop returns a random present element
    with probability p."""

    def __init__(self, rng, p, case):
        super().__init__()
        self._rng, self._p, self._case = rng, p, case
        self.pops: list[int] = []
        self.perturbed = 0
        self.last_item = None

    def pop(self):
        if self._p and self._rng.random() < self._p and len(self._map) > 1:
            keys = list(self._map.keys())
            item = self._rng.choice(keys)
            if item is not keys[-1]:
                self.perturbed += 1
            self.remove(item)
        else:
            item = super().pop()
        self.pops.append(self._case.number(item))
        self.last_item = item
        return item


# ------------------------------------------------------------------------------------------------ layer B + driver
def check_invocation(c: Case, op, before: Snap, after: Snap, ev, flag, c0, c1):
    changed_canon = c0 != c1
    changed_ident = before.ident != after.ident
    apis = sorted({r["api"] for r in c.calls})
    ctx = {"matched_op": describe(op), "rewriter_calls": apis, "events": [e[0] for e in ev][:40]}
    if changed_canon or changed_ident:
        c.stats["mutating_invocations"] += 1
        if flag:
            c.stats["mutating_invocations_flagged"] += 1
        elif c.flag_explained:
            c.stats["unflagged_mutations_explained_by_api_check"] += 1  # already reported as <api>:flag-not-set
        else:
            c.stats["unflagged_mutations_unexplained"] += 1
            c.violate("flag-unset-after-mutation",
                      f"IR changed during a match (canon changed={changed_canon}, identity changed={changed_ident}) but "
                      f"rewriter.has_done_action is False; rewriter calls {apis}", ctx)
    elif flag:
        c.stats["flag_set_without_visible_change"] += 1
    ins = {id(o) for k, o, _x in ev if k == "ins"}
    rem = {id(o) for k, o, _x in ev if k == "rem"}
    mod = {id(o) for k, o, _x in ev if k == "mod"}
    for i, s in after.ops.items():
        if i in before.ops:
            continue
        c.stats["ops_newly_attached"] += 1
        chain = [o for o in (s.op,) + s.anc if id(o) not in before.ops]
        if any(id(o) in ins for o in chain):
            continue
        if any(("ins", id(o)) in c.explained for o in chain):
            continue
        c.violate("unnotified:insertion", f"{describe(s.op)} newly attached below the region with no insertion "
                  f"notification for it or a newly attached ancestor; rewriter calls {apis}", ctx)
    for i, s in before.ops.items():
        if i in after.ops:
            continue
        c.stats["ops_left_region"] += 1
        if i in rem or any(id(a) in rem for a in s.anc):
            continue
        if ("rem", i) in c.explained or any(("rem", id(a)) in c.explained for a in s.anc):
            continue
        c.violate("unnotified:removal", f"{describe(s.op)} left the region with no removal notification for it or an "
                  f"ancestor; rewriter calls {apis}", ctx)
    for i, s in after.ops.items():
        b = before.ops.get(i)
        if b is None:
            continue
        opnd_changed = len(b.operands) != len(s.operands) or any(x is not y for x, y in zip(b.operands, s.operands))
        type_changed = b.rtypes != s.rtypes
        if not (opnd_changed or type_changed):
            continue
        c.stats["ops_operands_or_types_changed"] += 1
        if i in mod or i in ins or ("mod", i) in c.explained:
            continue
        what = "operand-change" if opnd_changed else "result-type-change"
        c.violate("unnotified:" + what, f"{describe(s.op)} stayed in the region, its "
                  f"{'operands' if opnd_changed else 'result types'} changed, no modification notification; "
                  f"rewriter calls {apis}", ctx)
    if (changed_canon or changed_ident) and not c.acted:
        c.stats["applier_fold_rewrites" if any(k == "rep" for k, _o, _x in ev) else "applier_dce_erasures"] += 1
    c.stats["listener_events"] += len(ev)
    for k, _o, _x in ev:
        c.stats["events:" + k] += 1


class Mon(RewritePattern):
    """Monitoring wrapper around the real (applier or bare) pattern."""

    def __init__(self, case: Case, inner):
        self.c, self.inner = case, inner

    def match_and_rewrite(self, op, rw):
        c = self.c
        c.stats["invocations"] += 1
        if c.stats["invocations"] > c.cap:
            c.diverged = True
            raise Diverged()
        stale = False
        if c.removed.get(id(op)) is op:
            stale = True
            c.violate("invoked-on-removed-op", f"pattern invoked on {describe(op)} after a removal notification covered it",
                      {"attached_now": attached_under(op, c.region)})
        elif not attached_under(op, c.region):
            stale = True
            c.violate("invoked-on-detached-op", f"pattern invoked on {describe(op)} which is not attached below the region")
        if rw.has_done_action:
            c.violate("flag-stale-at-entry", "rewriter.has_done_action is already True when a match starts")
        if stale:
            return
        before = Snap(c.region)
        c0 = canon_ir(c.module)
        e0 = len(c.events)
        c.calls = []
        c.explained = set()
        c.acted = set()
        c.flag_explained = False
        c.inv_mutated = False
        c.current_pattern = "<applier>"
        self.inner.match_and_rewrite(op, rw)
        c1 = canon_ir(c.module)
        after = Snap(c.region)
        if c.acted:
            c.stats["acting_invocations"] += 1
            for a in c.acted:
                c.acted_all.add(a)
        check_invocation(c, op, before, after, c.events[e0:], rw.has_done_action, c0, c1)
        if c0 != c1 or before.ident != after.ident:
            c.mutation_kinds.append(c.current_pattern)


class Named(RewritePattern):
    """Records which library pattern acted (for the non-triviality rule and evidence)."""

    def __init__(self, case, p):
        self.c, self.p = case, p

    def match_and_rewrite(self, op, rw):
        n0 = self.c.api_calls
        self.p.match_and_rewrite(op, rw)
        if self.c.api_calls != n0:
            self.c.current_pattern = type(self.p).__name__
            if self.c.monitoring:
                self.c.stats["acted:" + type(self.p).__name__] += 1


class NeverMatches(RewritePattern):
    def match_and_rewrite(self, op, rw):
        return


def erase_marked(region, listener):
    """Mutating test hook: erases unused ops tagged "hd", reporting each removal through the listener it was handed."""
    from xdsl.rewriter import Rewriter
    n = 0
    while True:
        dead = [o for o in region.walk() if kind(o) == "hd" and unused(o) and not o.regions]
        if not dead:
            return n > 0
        for o in dead:
            listener.handle_operation_removal(o)
            Rewriter.erase_op(o)
            n += 1


def noop_hook(region, listener):
    return False


def base_hook(name):
    if name == "region_dce":
        from xdsl.transforms.dead_code_elimination import region_dce
        return region_dce
    return {"erase_marked": erase_marked, "noop": noop_hook, "none": None}[name]


def make_hook(c: Case, name):
    """The hook handed to the walker, wrapped so that each call leaves a record (did the IR change, what was reported,
    which removals reached the registered user listener)."""
    base = base_hook(name)
    if base is None:
        return None

    def hook(region, listener):
        before = Snap(region)
        c0 = canon_ir(c.module)
        e0 = len(c.events)
        r = base(region, listener)
        after = Snap(region)
        changed = c0 != canon_ir(c.module) or before.ident != after.ident
        c.stats["hook_calls"] += 1
        if changed:
            c.stats["hook_calls_mutating"] += 1
            c.stats["hook_ops_removed"] += sum(1 for i in before.ops if i not in after.ops)
            c.stats["hook_blocks_removed"] += sum(1 for i in before.blocks if i not in after.blocks)
        if r and changed:
            c.hook_reported_change += 1
        if changed and not r:
            c.hook_untruthful += 1
            c.stats["hook_changed_ir_but_returned_false"] += 1
        if r and not changed:
            c.stats["hook_returned_true_without_change"] += 1
        if name == "erase_marked":
            rem = {id(o) for k, o, _x in c.events[e0:] if k == "rem"}
            gone = [s.op for i, s in before.ops.items() if i not in after.ops]
            if any(id(o) not in rem for o in gone):
                c.violate("post_walk_func:listener-does-not-reach-registered-listener",
                          "removals the post-walk hook reported through the listener it was handed did not reach the "
                          "listener registered on the walker")
        return r

    return hook


def build_inner(c: Case, names, mode):
    pats = [Named(c, PATTERN_BY_NAME[n](c)) for n in names]
    if mode == "bare":
        return pats[0] if pats else NeverMatches()
    kw = dict(dce_enabled="dce" in mode)
    if "fold" in mode:
        ctx = Context()
        for d in (Builtin, arith.Arith, Test):
            ctx.load_dialect(d)
        return GreedyRewritePatternApplier(pats, ctx, folding_enabled=True, **kw)
    return GreedyRewritePatternApplier(pats, **kw)


def module_text(module):
    try:
        from io import StringIO

        from xdsl.printer import Printer
        s = StringIO()
        Printer(stream=s, print_generic_format=True).print_op(module)
        return s.getvalue()
    except Exception as e:  # noqa: BLE001  (witness rendering only)
        return f"<unprintable: {type(e).__name__}: {e}>"


def run_case(seed, size, want_text=False):
    _memo.clear()
    module, names, cfg, wrng = gen_case(seed, size)
    c = Case(seed, size)
    c.module, c.region, c.cfg = module, module.body, cfg
    text0 = module_text(module) if want_text else None
    n0 = 0
    for o in module.body.walk():
        c.number(o)
        n0 += 1
    c.cap = 400 * (n0 + 5)
    canon_start = canon_ir(module)
    inner = build_inner(c, names, cfg["mode"])

    def on_ins(o):
        c.number(o)
        c.events.append(("ins", o, attached_under(o, c.region)))

    def on_rem(o):
        nested = list(o.walk())
        for x in nested:
            c.removed[id(x)] = x
        c.keep.extend(nested)
        c.events.append(("rem", o, attached_under(o, c.region)))

    def on_mod(o):
        c.keep.append(o)
        c.events.append(("mod", o, None))

    def on_rep(o, nr):
        c.keep.append(o)
        c.events.append(("rep", o, list(nr)))

    def on_blk(b):
        c.keep.append(b)
        c.events.append(("blk", b, None))

    listener = PatternRewriterListener(operation_insertion_handler=[on_ins], operation_removal_handler=[on_rem],
                                       operation_modification_handler=[on_mod], operation_replacement_handler=[on_rep],
                                       block_creation_handler=[on_blk])
    walker = PatternRewriteWalker(Mon(c, inner), walk_regions_first=cfg["walk_regions_first"],
                                  apply_recursively=cfg["apply_recursively"], walk_reverse=cfg["walk_reverse"],
                                  post_walk_func=make_hook(c, cfg["hook"]), listener=listener)
    wl = PerturbedWorklist(wrng, cfg["perturb"], c)
    walker._worklist = wl
    c.monitoring = True
    ret = None
    try:
        ret = walker.rewrite_module(module)
    except Exception as e:
        if c.diverged:
            c.violate("driver-diverges", f"more than {c.cap} pattern invocations on a module of {n0} ops with a "
                      f"terminating pattern set ({c.stats['mutating_invocations']} of them mutating)")
        else:
            # Only an exception raised by the test pattern / monitor code itself is a harness matter (crash the shard).
            # One raised in driver code (walker, listener handlers, worklist, rewriter, builder) is an observation about
            # the driver, also when it propagates through a rewriter call made inside a pattern (erase/replace ->
            # listener -> worklist). (The walker re-raises pattern exceptions with a note: the innermost frame of the
            # traceback is still the original raise site.)
            frames = []
            tb = e.__traceback__
            while tb is not None:
                frames.append((tb.tb_frame.f_code.co_filename, tb.tb_frame.f_code.co_qualname))
                tb = tb.tb_next
            in_pattern = any(fn == __file__ and qn != "run_case" for fn, qn in frames)
            last_own = max((i for i, (fn, _q) in enumerate(frames) if fn == __file__), default=-1)
            below = [(fn, qn) for fn, qn in frames[last_own + 1:] if fn.endswith(DRIVER_FILES)]
            if not frames or frames[-1][0] == __file__ or not below:
                raise
            c.diverged = True  # the walk did not complete: no return value / fixpoint to judge
            last = wl.last_item
            where = below[-1][1]
            c.stats["driver_exceptions_inside_pattern_calls" if in_pattern else "driver_exceptions_outside_patterns"] += 1
            if (not in_pattern and last is not None
                    and (c.removed.get(id(last)) is last or not attached_under(last, c.region))):
                c.violate("driver-raised-on-stale-worklist-entry",
                          f"the driver popped {describe(last)}, which was removed / is no longer attached below the region, "
                          f"and raised {type(e).__name__} in {where} before invoking the pattern: {str(e)[:120]}",
                          {"exception": type(e).__name__, "raised_in": where,
                           "covered_by_removal_notification": c.removed.get(id(last)) is last})
            else:
                c.violate(f"driver-raised:{type(e).__name__}:{where}",
                          f"driver code raised {type(e).__name__} in {where} "
                          + ("during a rewriter call made by a pattern" if in_pattern else "outside any pattern")
                          + f"; last popped {describe(last)}: {re.sub(r'\d{6,}', 'ID', str(e))[:160]}",
                          {"exception": type(e).__name__, "raised_in": where, "inside_pattern_call": in_pattern,
                           "frames": [q for _f, q in frames][-8:]})
    c.monitoring = False
    c.current_pattern = "<applier>"
    canon_end = canon_ir(module)
    changed = canon_start != canon_end
    if not c.diverged:
        if cfg["hook"] != "none":
            c.stats["hook_cases"] += 1
            if c.hook_reported_change and not c.stats["mutating_invocations"]:
                c.stats["hook_only_change_cases"] += 1
        if c.hook_reported_change and not ret:
            c.violate("returned-false-but-post-walk-hook-changed-ir",
                      f"rewrite_module returned False although post_walk_func ({cfg['hook']}) changed the IR and reported "
                      f"True in {c.hook_reported_change} call(s) (canon changed={changed}, "
                      f"{c.stats['mutating_invocations']} mutating pattern invocations)")
        elif (changed or c.stats["mutating_invocations"]) and not ret:
            if c.hook_untruthful and not c.stats["mutating_invocations"]:
                c.stats["return_false_after_untruthful_hook"] += 1  # the hook changed IR and said False: not the walker
            elif (c.stats["mutating_invocations_flagged"] == 0 and c.stats["unflagged_mutations_unexplained"] == 0
                    and c.stats["unflagged_mutations_explained_by_api_check"] > 0):
                # direct consequence of an <api>:flag-not-set already reported by layer A: no flag was ever raised
                c.stats["return_false_explained_by_unset_flag"] += 1
            else:
                c.violate("returned-false-but-ir-changed",
                          f"rewrite_module returned False although the IR changed (canon changed={changed}, "
                          f"{c.stats['mutating_invocations']} mutating invocations, "
                          f"{c.stats['mutating_invocations_flagged']} of them with the flag set)")
        if ret and not changed:
            c.stats["returned_true_canon_unchanged"] += 1
        if ret:
            c.stats["walker_returned_true"] += 1
        if changed:
            c.stats["cases_ir_changed"] += 1
        try:
            check_tree([module])
            c.stats["irsan_walks"] += 1
        except Broken as e:
            c.violate("irsan:" + re.sub(r"\d+", "N", str(e).split(":")[0])[:60],
                      "IR links / use lists broken after the walk: " + str(e))
        if cfg["apply_recursively"]:
            i0 = Snap(c.region)
            for o in [s.op for s in i0.ops.values()]:
                if not attached_under(o, c.region):
                    continue
                rw = PatternRewriter(o)
                c.current_pattern = "<applier>"
                inner.match_and_rewrite(o, rw)
                c.stats["fixpoint_reapplications"] += 1
                if rw.has_done_action or Snap(c.region).ident != i0.ident:
                    c.violate("fixpoint-missed", f"after the recursive walk returned, pattern {c.current_pattern} still "
                              f"applies to {describe(o)}", {"pattern": c.current_pattern})
                    break
            else:
                if canon_ir(module) != canon_end:
                    c.violate("fixpoint-missed", "re-applying the patterns after the walk changed canon(module)")
                elif cfg["hook"] != "none":
                    # fixpoint clause with the hook active: after the return, patterns AND hook change nothing
                    r = base_hook(cfg["hook"])(c.region, PatternRewriterListener())
                    c.stats["fixpoint_hook_reruns"] += 1
                    if r or Snap(c.region).ident != i0.ident or canon_ir(module) != canon_end:
                        c.violate("fixpoint-missed:post_walk_func",
                                  f"after the recursive walk returned, re-running post_walk_func ({cfg['hook']}) still "
                                  f"changes the IR (reported {r})")
            c.stats["fixpoint_checked_cases"] += 1
    pops = tuple(wl.pops)
    out = {
        "names": names, "cfg": cfg, "n0": n0, "ret": ret, "changed": changed, "pops": pops,
        "perturbed_pops": wl.perturbed, "stats": c.stats, "violations": c.violations,
        "canon_hash": shash(canon_start), "mutation_kinds": c.mutation_kinds, "apis": sorted(c.acted_all),
        "text0": text0, "n_end": len(Snap(c.region).ops),
    }
    return out
