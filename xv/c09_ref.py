"""Reference evaluator for IRDL attribute / range / int constraints (oracle of C09, reused by C10).

It never looks at a real ``AttrConstraint`` object: the generator keeps a *spec tree* next to every real
constraint it builds, and this module evaluates the spec tree by its textbook meaning (explicit
backtracking over variable environments; no class-dispatch table, no merging, no simplification).
Attribute equality is decided structurally by ``same_attr`` (class identity + parameters / payload),
never by ``Attribute.__eq__`` / ``__hash__``.

SPEC TREE FORMAT  (plain tuples; leaves hold real xDSL ``Attribute`` instances / classes / ints / strs)
======================================================================================================
Attribute level -- evaluated against ONE attribute:
  ("any",)                      accepts everything                               AnyAttr()
  ("eq", attr)                  structurally equal to attr                       EqAttrConstraint(attr)
  ("set", (attr, ...))          equal to one of them                             AttrSetConstraint.get(*attrs)
  ("base", cls)                 isinstance(a, cls) (cls may be abstract)         BaseAttr(cls)
  ("param", cls, (t0, t1, ..))  isinstance(a, cls), len(a.parameters)==n and     ParamAttrConstraint.get(cls, ...)
                                parameter i satisfies ti (left to right, one env)
  ("anyof", (t0, t1, ...))      some alternative accepts                         AnyOf.get(...) / a | b
  ("allof", (t0, t1, ...))      all accept (left to right, env threaded)         AllOf((...)) / a & b
  ("var", name, t)              unbound: t accepts, then name := a ;             VarConstraint(name, t)
                                bound: a equal to the bound value (t NOT re-checked: generators must give
                                every occurrence of one name the same inner tree, then both readings agree)
  ("msg", t, text)              same as t                                        MessageConstraint(t, text)
  ("array", R)                  a is an ArrayAttr and a.data satisfies range R   ArrayOfConstraint(R)
  ("intattr", I)                a is an IntAttr and a.data satisfies int tree I  IntAttrConstraint(I)
  ("sized", I)                  a has __len__ and len(a) satisfies I             SizedConstraint(I)
  ("tvar", typevar, t)          same as t (an unsubstituted type variable means  TypeVarConstraint(typevar, t)
                                its bound); ``subst`` replaces it
Range level -- evaluated against a TUPLE of attributes (``eval_range``):
  ("rangeof", t)                every element satisfies t (left to right)        RangeOf(t)
  ("single", t)                 exactly one element, which satisfies t           SingleOf(t)
  ("rangevar", name, R)         unbound: R accepts, name := tuple ; bound: equal RangeVarConstraint(name, R)
  ("rangelen", R, I)            len satisfies I FIRST, then R accepts            RangeLengthConstraint(R, I) / R.of_length(I)
Int level -- evaluated against a python int (``eval_int``):
  ("iany",) ("ieq", n) ("ine", n) ("iset", (n, ...)) ("ige", n) ("ile", n)       AnyInt EqIntConstraint NotEqualIntConstraint
                                                                                 IntSetConstraint AtLeast AtMost
  ("ivar", name, I)             unbound: I accepts, name := n ; bound: equal     IntVarConstraint(name, I)
  ("itvar", typevar, I)         same as I                                        IntTypeVarConstraint(typevar, I)

ENVIRONMENT: a plain dict keyed by (namespace, name) with namespace "a" (attribute variables), "r" (range
variables, value = tuple of attributes) or "i" (int variables) -- the three namespaces of ConstraintContext are
independent.  Environments are never mutated; an extension is a new dict.  ``env_of_ctx`` / ``ctx_of_env``
convert from / to a real ``ConstraintContext``.

ENTRY POINTS
  eval_all(tree, attr, env)   -> list of environments under which ``attr`` is accepted ([] = rejected; with
                                 disjoint unions -- all that AnyOf allows -- the list has at most one element)
  eval_spec(tree, attr, env)  -> the (first) resulting environment, or None when rejected.  ``env`` may be None
                                 (= empty).  Truthiness must not be used: an accepted result can be the empty dict;
                                 test ``is not None``.
  accepts(tree, attr, env=None) -> bool
  eval_range_all / eval_range(tree, attrs, env), eval_int_all / eval_int(tree, n, env): same for the other levels.
  eval_any(tree, value, env): dispatches on the node tag (attribute / range / int level).
  same_attr(a, b), attr_key(a): structural equality / hashable structural key.
  tree_vars(tree) -> set of (namespace, name) occurring;  tree_show(tree) -> JSON-able rendering.
  subst(tree, {typevar: tree}) -> tree with ("tvar"/"itvar", typevar, _) nodes replaced (the meaning of
                           ``constraint.mapping_type_vars``).
  build(tree, rng=None) -> the REAL constraint object, built through the public constructors (generator side, not
                           part of the oracle).  With ``rng`` the construction route is varied (AnyOf.get vs `|`,
                           `&` vs AllOf, coercions of bare attributes / classes).  May raise PyRDLError (overlapping
                           union alternatives) or VerifyException (ParamAttrConstraint.get with all-equality
                           parameters eagerly builds the attribute): both mean "construction rejected".

Type hints (C09 only): ``ref_isa(attr, hint_tree)`` and ``build_hint(hint_tree)``, see the second half of the file.
"""
from __future__ import annotations

import enum

ATTR_TAGS = frozenset(("any", "eq", "set", "base", "param", "anyof", "allof", "var", "msg", "array", "intattr", "sized", "tvar"))
RANGE_TAGS = frozenset(("rangeof", "single", "rangevar", "rangelen"))
INT_TAGS = frozenset(("iany", "ieq", "ine", "iset", "ige", "ile", "ivar", "itvar"))


# --------------------------------------------------------------------------- structural equality
def _py_key(x):
    from xdsl.ir import Attribute
    if isinstance(x, Attribute):
        return attr_key(x)
    if isinstance(x, bool):
        return ("int", int(x))      # IntAttr(True) == IntAttr(1) in python; payload pools avoid bools anyway
    if isinstance(x, int):
        return ("int", x)
    if isinstance(x, float):
        import struct
        return ("f64", struct.pack("<d", x))
    if isinstance(x, (str, bytes)):
        return (type(x).__name__, x)
    if isinstance(x, enum.Enum):
        return ("enum", type(x).__qualname__, x.name)
    if isinstance(x, (tuple, list)):
        return ("seq", tuple(_py_key(e) for e in x))
    if x is None:
        return ("none",)
    if hasattr(x, "items"):
        return ("map", tuple(sorted(((_py_key(k), _py_key(v)) for k, v in x.items()), key=repr)))
    return ("obj", type(x).__qualname__, str(x))


def attr_key(a):
    """Hashable structural key of an attribute: class object identity + parameters / payload."""
    from xdsl.ir import Data, ParametrizedAttribute
    if isinstance(a, ParametrizedAttribute):
        return ("P", id(type(a)), type(a).__qualname__, tuple(attr_key(p) for p in a.parameters))
    if isinstance(a, Data):
        return ("D", id(type(a)), type(a).__qualname__, _py_key(a.data))
    return ("?", id(type(a)), type(a).__qualname__, str(a))


def same_attr(a, b) -> bool:
    return a is b or (type(a) is type(b) and attr_key(a) == attr_key(b))


def same_range(xs, ys) -> bool:
    return len(xs) == len(ys) and all(same_attr(x, y) for x, y in zip(xs, ys))


# --------------------------------------------------------------------------- evaluation
def _bind(env, key, value):
    e = dict(env)
    e[key] = value
    return e


def _thread(trees, values, env, fn):
    """Conjunction left to right: every (tree, value) pair must accept, environments threaded."""
    envs = [env]
    for t, v in zip(trees, values):
        envs = [e2 for e in envs for e2 in fn(t, v, e)]
        if not envs:
            return []
    return envs


def eval_int_all(tree, n, env):
    tag = tree[0]
    if tag == "iany":
        return [env]
    if tag == "ieq":
        return [env] if n == tree[1] else []
    if tag == "ine":
        return [env] if n != tree[1] else []
    if tag == "iset":
        return [env] if any(n == v for v in tree[1]) else []
    if tag == "ige":
        return [env] if n >= tree[1] else []
    if tag == "ile":
        return [env] if n <= tree[1] else []
    if tag == "ivar":
        k = ("i", tree[1])
        if k in env:
            return [env] if env[k] == n else []
        return [_bind(e, k, n) for e in eval_int_all(tree[2], n, env)]
    if tag == "itvar":
        return eval_int_all(tree[2], n, env)
    raise ValueError(f"c09_ref: not an int-level node: {tree!r}")


def eval_range_all(tree, attrs, env):
    attrs = tuple(attrs)
    tag = tree[0]
    if tag == "rangeof":
        return _thread([tree[1]] * len(attrs), attrs, env, eval_all)
    if tag == "single":
        return eval_all(tree[1], attrs[0], env) if len(attrs) == 1 else []
    if tag == "rangevar":
        k = ("r", tree[1])
        if k in env:
            return [env] if same_range(env[k], attrs) else []
        return [_bind(e, k, attrs) for e in eval_range_all(tree[2], attrs, env)]
    if tag == "rangelen":
        return [e2 for e in eval_int_all(tree[2], len(attrs), env) for e2 in eval_range_all(tree[1], attrs, e)]
    raise ValueError(f"c09_ref: not a range-level node: {tree!r}")


def eval_all(tree, a, env):
    tag = tree[0]
    if tag == "any":
        return [env]
    if tag == "eq":
        return [env] if same_attr(a, tree[1]) else []
    if tag == "set":
        return [env] if any(same_attr(a, v) for v in tree[1]) else []
    if tag == "base":
        return [env] if isinstance(a, tree[1]) else []
    if tag == "param":
        if not isinstance(a, tree[1]):
            return []
        ps = tuple(a.parameters)
        if len(ps) != len(tree[2]):
            return []
        return _thread(tree[2], ps, env, eval_all)
    if tag == "anyof":
        out, seen = [], set()
        for t in tree[1]:
            for e in eval_all(t, a, env):
                k = env_key(e)
                if k not in seen:
                    seen.add(k)
                    out.append(e)
        return out
    if tag == "allof":
        return _thread(tree[1], [a] * len(tree[1]), env, eval_all)
    if tag == "var":
        k = ("a", tree[1])
        if k in env:
            return [env] if same_attr(env[k], a) else []
        return [_bind(e, k, a) for e in eval_all(tree[2], a, env)]
    if tag == "msg":
        return eval_all(tree[1], a, env)
    if tag == "array":
        from xdsl.dialects.builtin import ArrayAttr
        if not isinstance(a, ArrayAttr):
            return []
        return eval_range_all(tree[1], a.data, env)
    if tag == "intattr":
        from xdsl.dialects.builtin import IntAttr
        if not isinstance(a, IntAttr):
            return []
        return eval_int_all(tree[1], a.data, env)
    if tag == "sized":
        if not hasattr(type(a), "__len__"):
            return []
        return eval_int_all(tree[1], len(a), env)
    if tag == "tvar":
        return eval_all(tree[2], a, env)
    raise ValueError(f"c09_ref: not an attribute-level node: {tree!r}")


def eval_spec(tree, attr, env=None):
    r = eval_all(tree, attr, {} if env is None else env)
    return r[0] if r else None


def eval_range(tree, attrs, env=None):
    r = eval_range_all(tree, attrs, {} if env is None else env)
    return r[0] if r else None


def eval_int(tree, n, env=None):
    r = eval_int_all(tree, n, {} if env is None else env)
    return r[0] if r else None


def eval_any(tree, value, env=None):
    if tree[0] in RANGE_TAGS:
        return eval_range(tree, value, env)
    if tree[0] in INT_TAGS:
        return eval_int(tree, value, env)
    return eval_spec(tree, value, env)


def accepts(tree, attr, env=None) -> bool:
    return eval_spec(tree, attr, env) is not None


# --------------------------------------------------------------------------- environments
def env_key(env):
    """Hashable structural key of an environment."""
    out = []
    for (ns, name), v in env.items():
        out.append((ns, name, attr_key(v) if ns == "a" else tuple(attr_key(x) for x in v) if ns == "r" else v))
    return tuple(sorted(out, key=repr))


def env_of_ctx(ctx):
    env = {}
    for k in ctx.attr_variables:
        env[("a", k)] = ctx.get_variable(k)
    for k in ctx.range_variables:
        env[("r", k)] = tuple(ctx.get_range_variable(k))
    for k in ctx.int_variables:
        env[("i", k)] = ctx.get_int_variable(k)
    return env


def ctx_of_env(env):
    from xdsl.irdl import ConstraintContext
    ctx = ConstraintContext()
    for (ns, name), v in env.items():
        if ns == "a":
            ctx.set_attr_variable(name, v)
        elif ns == "r":
            ctx.set_range_variable(name, tuple(v))
        else:
            ctx.set_int_variable(name, v)
    return ctx


def env_show(env):
    return {f"{ns}:{name}": (str(v) if ns == "a" else [str(x) for x in v] if ns == "r" else v)
            for (ns, name), v in sorted(env.items(), key=lambda kv: kv[0])}


# --------------------------------------------------------------------------- tree utilities
def subtrees(tree):
    yield tree
    tag = tree[0]
    if tag in ("param",):
        for t in tree[2]:
            yield from subtrees(t)
    elif tag in ("anyof", "allof"):
        for t in tree[1]:
            yield from subtrees(t)
    elif tag in ("var", "rangevar", "ivar", "tvar", "itvar"):
        yield from subtrees(tree[2])
    elif tag in ("msg", "array", "intattr", "sized", "rangeof", "single"):
        yield from subtrees(tree[1])
    elif tag == "rangelen":
        yield from subtrees(tree[1])
        yield from subtrees(tree[2])


def tree_vars(tree):
    ns = {"var": "a", "rangevar": "r", "ivar": "i"}
    return {(ns[t[0]], t[1]) for t in subtrees(tree) if t[0] in ns}


def subst(tree, mapping):
    """Replace type-variable nodes by ``mapping[typevar]`` (missing key: KeyError, as mapping_type_vars)."""
    tag = tree[0]
    if tag in ("tvar", "itvar"):
        return mapping[tree[1]]
    if tag == "param":
        return (tag, tree[1], tuple(subst(t, mapping) for t in tree[2]))
    if tag in ("anyof", "allof"):
        return (tag, tuple(subst(t, mapping) for t in tree[1]))
    if tag in ("var", "rangevar", "ivar"):
        return (tag, tree[1], subst(tree[2], mapping))
    if tag == "msg":
        return (tag, subst(tree[1], mapping), tree[2])
    if tag in ("array", "intattr", "sized", "rangeof", "single"):
        return (tag, subst(tree[1], mapping))
    if tag == "rangelen":
        return (tag, subst(tree[1], mapping), subst(tree[2], mapping))
    return tree


def tree_show(tree):
    """JSON-able rendering (attributes by str(), classes by name)."""
    from xdsl.ir import Attribute
    if isinstance(tree, tuple):
        return [tree_show(t) for t in tree]
    if isinstance(tree, Attribute):
        return "attr:" + str(tree)
    if isinstance(tree, type):
        return "class:" + tree.__name__
    if isinstance(tree, enum.Enum):
        return "enum:" + tree.name
    if type(tree).__name__ == "TypeVar":
        return "typevar:" + tree.__name__
    return tree


# --------------------------------------------------------------------------- building the real constraint
def _pick(rng, n):
    return rng.randrange(n) if rng is not None else 0


def build(tree, rng=None):
    """Real constraint for a spec tree, through the public constructors (see module docstring)."""
    from xdsl.dialects.builtin import ArrayOfConstraint, IntAttrConstraint
    from xdsl.irdl import (AllOf, AnyAttr, AnyInt, AnyOf, AtLeast, AtMost, AttrSetConstraint, BaseAttr,
                           EqAttrConstraint, EqIntConstraint, IntSetConstraint, IntVarConstraint,
                           MessageConstraint, ParamAttrConstraint, RangeLengthConstraint, RangeOf,
                           RangeVarConstraint, SingleOf, VarConstraint, base, eq, irdl_to_attr_constraint)
    from xdsl.irdl.constraints import NotEqualIntConstraint, SizedConstraint

    tag = tree[0]
    if tag == "any":
        return AnyAttr()
    if tag == "eq":
        from xdsl.dialects.builtin import SignednessAttr
        if isinstance(tree[1], SignednessAttr) and _pick(rng, 3) == 2:
            return irdl_to_attr_constraint(tree[1].data)              # ConstraintConvertible instance (Signedness member)
        return (EqAttrConstraint(tree[1]), eq(tree[1]), irdl_to_attr_constraint(tree[1]))[_pick(rng, 3)]
    if tag == "set":
        return AttrSetConstraint.get(*tree[1])
    if tag == "base":
        from xdsl.dialects.builtin import Signedness, SignednessAttr
        if tree[1] is SignednessAttr and _pick(rng, 3) == 2:
            return irdl_to_attr_constraint(Signedness)                # ConstraintConvertible class
        return (BaseAttr(tree[1]), base(tree[1]), irdl_to_attr_constraint(tree[1]))[_pick(rng, 3)]
    if tag == "param":
        kids = [build(t, rng) for t in tree[2]]
        route = _pick(rng, 3)
        if route == 2:
            return ParamAttrConstraint(tree[1], tuple(kids))          # direct dataclass constructor (no folding)
        if route == 1:                                                # coercions: bare attribute / None
            kids = [k.attr if isinstance(k, EqAttrConstraint) else None if isinstance(k, AnyAttr) else k for k in kids]
        return ParamAttrConstraint.get(tree[1], *kids)
    if tag == "anyof":
        kids = [build(t, rng) for t in tree[1]]
        route = _pick(rng, 4)
        if route == 1:                                                # left fold with |
            c = kids[0]
            for k in kids[1:]:
                c = c | k
            return c
        if route == 2 and len(kids) > 2:                              # nested: AnyOf.get(k0, AnyOf.get(rest))
            return AnyOf.get(kids[0], AnyOf.get(*kids[1:]))
        if route == 3:                                                # right fold with |
            c = kids[-1]
            for k in reversed(kids[:-1]):
                c = k | c
            return c
        return AnyOf.get(*kids)
    if tag == "allof":
        kids = [build(t, rng) for t in tree[1]]
        if _pick(rng, 2) == 1:
            return AllOf(tuple(kids))
        c = kids[0]
        for k in kids[1:]:
            c = c & k
        return c
    if tag == "var":
        inner = build(tree[2], rng)
        return (VarConstraint(tree[1], inner), VarConstraint.get(tree[1], inner))[_pick(rng, 2)]
    if tag == "msg":
        return MessageConstraint(build(tree[1], rng), tree[2])
    if tag == "array":
        sub = tree[1]
        if sub[0] == "rangeof" and _pick(rng, 2) == 1:
            return ArrayOfConstraint(build(sub[1], rng))              # attr-constraint coercion to RangeOf
        return ArrayOfConstraint(build(sub, rng))
    if tag == "intattr":
        sub = build(tree[1], rng)
        return (IntAttrConstraint(sub), IntAttrConstraint.get(sub))[_pick(rng, 2)]
    if tag == "sized":
        return SizedConstraint(build(tree[1], rng))
    if tag == "rangeof":
        return RangeOf(build(tree[1], rng))
    if tag == "single":
        return SingleOf(build(tree[1], rng))
    if tag == "rangevar":
        return RangeVarConstraint(tree[1], build(tree[2], rng))
    if tag == "rangelen":
        r, i = build(tree[1], rng), build(tree[2], rng)
        if tree[2][0] == "ieq" and _pick(rng, 3) == 2:
            return r.of_length(tree[2][1])                            # int coercion
        return (RangeLengthConstraint(r, i), r.of_length(i))[_pick(rng, 2)]
    if tag == "iany":
        return AnyInt()
    if tag == "ieq":
        return EqIntConstraint(tree[1])
    if tag == "ine":
        return NotEqualIntConstraint(tree[1])
    if tag == "iset":
        return IntSetConstraint(frozenset(tree[1]))
    if tag == "ige":
        return AtLeast(tree[1])
    if tag == "ile":
        return AtMost(tree[1])
    if tag == "ivar":
        return IntVarConstraint(tree[1], build(tree[2], rng))
    if tag == "tvar":
        from xdsl.irdl import TypeVarConstraint
        return TypeVarConstraint(tree[1], build(tree[2], rng))
    if tag == "itvar":
        from xdsl.irdl.constraints import IntTypeVarConstraint
        return IntTypeVarConstraint(tree[1], build(tree[2], rng))
    raise ValueError(f"c09_ref.build: unknown node {tree!r}")


# =========================================================================== type hints (C09)
"""HINT TREE FORMAT (attribute-typed positions)
  ("h_any",)                         -> Attribute
  ("h_cls", cls)                     -> cls                      isinstance
  ("h_union", (h, ...), style)       -> h0 | h1 .. ("pipe") or typing.Union[...] ("Union")     some member
  ("h_annot", h, (extra, ...))       -> Annotated[h, extra...]   h and every extra hold; extra = ("c", spec tree)
                                        (a real constraint object, built with build()) or ("a", attr) (bare attribute)
  ("h_gen", origin, (arg, ...))      -> origin[arg, ...]         isinstance(origin) and every type variable position
                                        of origin (table GENERICS below, written by hand from the class definitions)
                                        holds for its argument; missing trailing args take the type variable default
int-typed positions:   ("hi_int",) -> int ; ("hi_lit", (n, ...)) -> Literal[n, ...] ;
                       ("hi_ulit", ((n, ..), (m, ..))) -> Union[Literal[n, ..], Literal[m, ..]]
Signedness positions:  ("he_all",) -> Signedness ; ("he_lit", (member, ...)) -> Literal[member, ...]
"""


def _generics():
    """origin -> (kinds, defaults, projector); projector(attr) -> per type variable the list of values that must
    satisfy the argument.  Hand-written from the field declarations of the classes (independent of
    get_irdl_definition / mapping_type_vars)."""
    from xdsl.dialects import builtin as b
    from xv import c09_attrs as x
    anyfloat = ("h_union", tuple(("h_cls", c) for c in (
        b.BFloat16Type, b.Float16Type, b.Float32Type, b.Float64Type, b.Float80Type, b.Float128Type)), "pipe")
    int_or_index = ("h_union", (("h_cls", b.IntegerType), ("h_cls", b.IndexType)), "pipe")
    int_or_float = ("h_union", (("h_cls", b.IntegerType),) + anyfloat[1], "pipe")
    A, I, E = "attr", "int", "enum"
    elem = lambda a: [[a.element_type]]  # noqa: E731
    return {
        b.ArrayAttr: ((A,), (("h_any",),), lambda a: [list(a.data)]),
        b.IntAttr: ((I,), (("hi_int",),), lambda a: [[a.data]]),
        b.SignednessAttr: ((E,), (("he_all",),), lambda a: [[a.data]]),
        b.IntegerType: ((I, E), (("hi_int",), ("he_all",)), lambda a: [[a.width.data], [a.signedness.data]]),
        b.IntegerAttr: ((A,), (int_or_index,), lambda a: [[a.type]]),
        b.FloatAttr: ((A,), (anyfloat,), lambda a: [[a.type]]),
        b.ComplexType: ((A,), (int_or_float,), elem),
        b.VectorType: ((A,), (("h_any",),), elem),
        b.TensorType: ((A,), (("h_any",),), elem),
        b.UnrankedTensorType: ((A,), (("h_any",),), elem),
        b.MemRefType: ((A,), (("h_any",),), elem),
        b.UnrankedMemRefType: ((A,), (("h_any",),), elem),
        b.DenseArrayBase: ((A,), (int_or_float,), lambda a: [[a.elt_type]]),
        x.XvBox: ((A,), (("h_any",),), lambda a: [[a.inner] + list(a.many.data)]),
        x.XvPair: ((A, A), (("h_any",), ("h_any",)),
                   lambda a: [[a.first], [a.second, a.nested.inner] + list(a.nested.many.data)]),
        x.XvInt: ((I,), (("hi_int",),), lambda a: [[a.width.data, a.ty.width.data]]),
    }


_GEN = None


def generics():
    global _GEN
    if _GEN is None:
        _GEN = _generics()
    return _GEN


def _ref_arg(value, h) -> bool:
    tag = h[0]
    if tag == "hi_int":
        return isinstance(value, int)
    if tag == "hi_lit":
        return any(value == n for n in h[1])
    if tag == "hi_ulit":
        return any(value == n for grp in h[1] for n in grp)
    if tag == "he_all":
        return True
    if tag == "he_lit":
        return any(value is m for m in h[1])
    return ref_isa(value, h)


def ref_isa(a, h) -> bool:
    """Independent structural reading of an attribute hint tree."""
    tag = h[0]
    if tag == "h_any":
        return True
    if tag == "h_cls":
        return isinstance(a, h[1])
    if tag == "h_union":
        return any(ref_isa(a, m) for m in h[1])
    if tag == "h_annot":
        if not ref_isa(a, h[1]):
            return False
        for kind, payload in h[2]:
            if kind == "a":
                if not same_attr(a, payload):
                    return False
            elif not accepts(payload, a):
                return False
        return True
    if tag == "h_gen":
        origin = h[1]
        if not isinstance(a, origin):
            return False
        kinds, defaults, proj = generics()[origin]
        args = tuple(h[2]) + tuple(defaults[len(h[2]):])
        return all(_ref_arg(v, arg) for vals, arg in zip(proj(a), args) for v in vals)
    raise ValueError(f"c09_ref.ref_isa: unknown hint node {h!r}")


def isa_supported(h) -> bool:
    """xdsl.utils.hints.isa has no Annotated case at the top level / directly under a union (it raises ValueError);
    inside a generic argument the hint goes through irdl_to_attr_constraint, which supports it."""
    if h[0] == "h_annot":
        return False
    if h[0] == "h_union":
        return all(isa_supported(m) for m in h[1])
    return True


def build_hint(h, rng=None):
    """The real typing object for a hint tree."""
    import functools
    import operator
    from typing import Annotated, Literal, Union

    from xdsl.dialects.builtin import Signedness
    from xdsl.ir import Attribute
    tag = h[0]
    if tag == "h_any":
        return Attribute
    if tag == "h_cls":
        return h[1]
    if tag == "h_union":
        ms = [build_hint(m, rng) for m in h[1]]
        if h[2] == "Union":
            return Union[tuple(ms)]
        return functools.reduce(operator.or_, ms)
    if tag == "h_annot":
        extras = tuple(p if k == "a" else build(p, rng) for k, p in h[2])
        return Annotated[(build_hint(h[1], rng),) + extras]
    if tag == "h_gen":
        args = tuple(build_hint(x, rng) for x in h[2])
        return h[1][args if len(args) != 1 else args[0]]
    if tag == "hi_int":
        return int
    if tag == "hi_lit" or tag == "he_lit":
        return Literal[tuple(h[1])]
    if tag == "hi_ulit":
        return Union[tuple(Literal[tuple(g)] for g in h[1])]
    if tag == "he_all":
        return Signedness
    raise ValueError(f"c09_ref.build_hint: unknown hint node {h!r}")
